#!/bin/bash
# tools/run_all.sh [quick|thorough] [PROP...] : run checks in sequence, print one summary line each
TIER=${1:-quick}; shift
PROPS=${@:-C01 C02 C03 C04 C05 C06 C07 C08 C09 C10 C11 C12 C13 C14 C15 C16 C17 C18 C19 C20}
cd "$(dirname "$0")/.."
for p in $PROPS; do
  s=$(date +%s)
  out=$(./check $p --tier $TIER 2>&1); rc=$?
  e=$(( $(date +%s) - s ))
  echo "$p tier=$TIER exit=$rc ${e}s :: $(echo "$out" | grep -E '^gtmc' | cut -c1-160)"
  echo "$out" | grep -E '^(VIOLATION|HARNESS|  CAP|   site)' | head -8
done
