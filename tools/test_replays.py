"""Plain pytest replay of recorded violations, without the explorer / worker pool:

    /venv/bin/python -m pytest -q /verif/tools/test_replays.py            (all files under /verif/replays)
    GTMC_REPLAY=/verif/replays/C07/abc.json /venv/bin/python -m pytest -q /verif/tools/test_replays.py

Each replay file holds the shard descriptor and the case key; the driver re-executes exactly that case in-process
(gtmc.cli --replay runs single-process, no pool) and the test asserts that the violation is reproduced (exit code 1).
On a repaired tree the tests therefore FAIL with 'no violation reproduced' -- that is the signal that a fix works."""
import glob
import os
import subprocess

import pytest

FILES = [os.environ["GTMC_REPLAY"]] if os.environ.get("GTMC_REPLAY") else sorted(glob.glob("/verif/replays/*/*.json"))


@pytest.mark.parametrize("path", FILES or [None])
def test_replay(path):
    if path is None:
        pytest.skip("no replay files recorded (no violation observed)")
    prop = os.path.basename(os.path.dirname(path))
    p = subprocess.run(["/verif/check", prop, "--replay", path], capture_output=True, text=True)
    assert p.returncode == 1, "violation not reproduced:\n" + p.stdout[-2000:]
    assert "VIOLATION property=%s" % prop in p.stdout
