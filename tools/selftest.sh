#!/bin/bash
# tools/selftest.sh : detection self-test.  Every property-breaking change kept under /verif/mutants and /verif/seeded is
# applied to a scratch worktree of /repo (never to /repo itself) and the quick check of the property it targets must
# exit 1 with a VIOLATION line.  Prints one line per change and a summary; exit 0 iff every change is detected.
cd /verif
declare -A MAP=( [m_revert_F5_identity_joint]=C07 [m_revert_F7_identity_sety]=C10 [m_revert_F8_hadamard_bcast]=C04 [m_revert_F10_sem_sign]=C16 [m_revert_F16_hetero_batch]=C12 )
fail=0; n=0
for p in mutants/*.patch seeded/*/patch.diff; do
  if [[ $p == seeded/* ]]; then id=$(basename $(dirname $p)); prop=$(echo $id | cut -d- -f2); else id=$(basename $p .patch); prop=${MAP[$id]:-$(echo $id | sed -E 's/^m_(c[0-9]+)_.*/\1/' | tr a-z A-Z)}; fi
  out=$(tools/runmutant_scratch.sh $p $prop 2>&1 | tail -1)
  rc=$(echo "$out" | sed -E 's/.*exit=([0-9]+).*/\1/')
  n=$((n+1))
  if [ "$rc" != "1" ]; then fail=$((fail+1)); echo "MISSED  $id $prop :: $out"; else echo "caught  $id $prop"; fi
done
echo "selftest: $n changes, $fail missed"
[ $fail -eq 0 ]
