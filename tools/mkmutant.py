#!/venv/bin/python
"""tools/mkmutant.py NAME FILE 'old' 'new' [count]  -> writes /verif/mutants/NAME.patch (repo left clean)."""
import subprocess, sys
name, rel, old, new = sys.argv[1:5]
cnt = int(sys.argv[5]) if len(sys.argv) > 5 else 1
p = "/repo/" + rel
s = open(p).read()
assert s.count(old) >= 1, "pattern not found"
if cnt == 1:
    assert s.count(old) == 1, "pattern not unique: %d" % s.count(old)
s2 = s.replace(old, new) if cnt != 1 else s.replace(old, new, 1)
open(p, "w").write(s2)
d = subprocess.run(["git", "-C", "/repo", "diff"], capture_output=True, text=True).stdout
open("/verif/mutants/%s.patch" % name, "w").write(d)
subprocess.run(["git", "-C", "/repo", "checkout", "--", "."], check=True)
print("wrote mutants/%s.patch (%d lines)" % (name, len(d.splitlines())))
