#!/venv/bin/python
"""tools/mkmutant.py NAME FILE 'old' 'new' [nth]  -> writes /verif/mutants/NAME.patch (repo left clean).
nth (1-based) selects which occurrence to replace when the pattern is not unique."""
import subprocess, sys
name, rel, old, new = sys.argv[1:5]
nth = int(sys.argv[5]) if len(sys.argv) > 5 else None
p = "/repo/" + rel
s = open(p).read()
n = s.count(old)
assert n >= 1, "pattern not found"
if nth is None:
    assert n == 1, "pattern not unique: %d (give nth)" % n
    nth = 1
pos = -1
for _ in range(nth):
    pos = s.index(old, pos + 1)
s2 = s[:pos] + new + s[pos + len(old):]
open(p, "w").write(s2)
d = subprocess.run(["git", "-C", "/repo", "diff"], capture_output=True, text=True).stdout
open("/verif/mutants/%s.patch" % name, "w").write(d)
subprocess.run(["git", "-C", "/repo", "checkout", "--", "."], check=True)
print("wrote mutants/%s.patch (%d lines)" % (name, len(d.splitlines())))
