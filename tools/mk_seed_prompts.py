#!/venv/bin/python
"""tools/mk_seed_prompts.py ROUND PROP [PROP...] : write /tmp/agent<ROUND>_prompt_<PROP>.txt for a fresh sub-agent and create
its scratch worktree /tmp/seed<ROUND>-<PROP>.  The prompt contains ONLY the property text, the list of changes earlier
sub-agents delivered for the same property (their own words), and generic directions -- nothing about /verif's checks."""
import glob, json, os, subprocess, sys

rnd = sys.argv[1]
props = {}
for l in open("/verif/properties.jsonl"):
    d = json.loads(l)
    props[d["id"]] = d

PREFER = """  - a rarely used but documented calling variant or public method that ordinary use never reaches: element_wise=True evaluation, the __call__ shortcuts, integrate() with omitted / partially omitted coefficient arguments, keyword arguments usually left at their default (update_full, p_x=, u=), observation or evaluation arrays with a single row or with many (>= 7) rows, index arrays with repeated or negative entries;
  - behaviour that differs between eager execution and jax.jit / jax.vmap of the same computation (Python-level branching on shapes or values, in-place attribute assignment, reliance on concrete array values);
  - a loss of numerical accuracy (not a wrong formula): an algebraically equivalent rewrite that is fine for well-conditioned inputs but loses more than 1e-8 relative accuracy for legal inputs with condition number around 1e3..1e4, strongly correlated covariances, or means far from the origin (say 50 standard deviations) -- but NOT by adding a small constant to a matrix or changing a division-guard threshold (already used);
  - larger sizes only: dimension >= 5, batch size >= 5, observation count >= 5, more than 3 kernels / noise units;
  - an interaction between TWO different classes (a diagonal-class object handed to a method of a general-class object, a conditional handed a density produced by another conditional or by a product with a factor, an identity-type conditional composed with a general one);
  - a quantity that is correct for the FIRST batch component (or when all components are equal) and wrong for the others, in a method whose existing tests only use R=1 or identical components."""
AVOID = "stale cached quantities after in-place changes (update, update_Sigma, update_phi, normalize), memoisation in general, tile-versus-repeat layout slips, sign slips of log-determinants, jnp.take(mode=\"clip\"), constructor branches for Lambda-only objects, class-of-result following the class of an operand (type(p_x)(...), replace()), custom JVP rules / stop_gradient, small absolute jitter constants (1e-10 * I) before an inversion, division-guard thresholds (where(Z > 1e-8, ...)), a reduction that lost its axis= argument and sums over the batch, taking component 0 of a batched argument for all components (A[0] versus A[:, 0]), exp(a)*exp(b) rewrites that under/overflow, a wrong einsum subscript in a Sherman-Morrison / rank-one update, a log1p rewrite that drops a factor, constructor branches for objects given Sigma and Lambda without a log-determinant, silently sorting / deduplicating an index array (jnp.sort, jnp.unique), module-level constants evaluated at import time, float32 casts, operator overloads (__mul__/__rmul__) swapping operands, gains computed as I - Sigma*Lambda, all()/any() guards on array values, batch-wide flags replacing per-component masks."

for pid in sys.argv[2:]:
    p = props[pid]
    wt = "/tmp/seed%s-%s" % (rnd, pid)
    if not os.path.exists(wt):
        subprocess.run(["git", "-C", "/repo", "worktree", "add", "-q", "--detach", wt, "HEAD"], check=True)
    earlier = []
    for f in sorted(glob.glob("/verif/seeded/S-%s-*/meta.agent.json" % pid)):
        try:
            m = json.load(open(f))
        except Exception:
            continue
        ch = m.get("change")
        if isinstance(ch, (dict, list)):
            ch = json.dumps(ch)
        earlier.append(str(ch).replace("\n", " ")[:330])
    el = "\n".join("  (%d) %s" % (i + 1, c) for i, c in enumerate(earlier))
    txt = f"""You are working in a scratch git worktree of the Python library gaussian-toolbox (JAX library for closed-form Gaussian algebra) at {wt}. Work ONLY inside {wt}; never touch /repo or /verif or any other directory. Interpreter: /venv/bin/python. Always run Python from inside {wt} so that `import gaussian_toolbox` resolves to the worktree (check once: cd {wt} && /venv/bin/python -c "import gaussian_toolbox; print(gaussian_toolbox.__file__)"). In your own scripts enable float64 first: `import jax; jax.config.update("jax_enable_x64", True)`.

Here is a semantic property the library is supposed to satisfy (verbatim):

{pid} — {p['title']}

STATEMENT: {p['statement']}

QUANTIFIER: {p['quantifier']['text']}

IMPORTANT - earlier contributors already delivered the following changes for this same property (do NOT repeat them or close variants, and do not touch the same functions):
{el}
Find a DIFFERENT change, in a different function and through a different mechanism. Directions that have NOT been used much yet and that you should prefer:
{PREFER}
Avoid these already-exhausted ideas: {AVOID} Small well-conditioned inputs used in the obvious way should still behave correctly.


YOUR TASK: make ONE small, realistic source change to the library code under {wt}/gaussian_toolbox/ (the kind of slip a maintainer could make in a refactor or "optimisation": an einsum subscript, a tile/reshape axis, a sign, a broadcast, an off-by-one, a dropped or doubled term, a wrong operand, a numerically poor rewrite) that BREAKS this property, while the library still (a) imports and (b) passes the WHOLE existing test suite, unedited:
    cd {wt} && /venv/bin/python -m pytest -q -p no:cacheprovider --timeout=900 -x
(about 4-5 minutes; all 554 tests must pass; do NOT use pytest-xdist or reorder tests, the tests seed NumPy per module). Do not edit, add or delete tests.

Strongly prefer a change that needs something SPECIFIC to manifest -- a particular batch layout (e.g. both operands batched, R=1 against R=n), a dimension regime (D>1, Dx != Dy, K != L), an unsorted or repeated index list, a cached covariance being present (or absent) when an operation runs, a multi-step sequence of operations, an unusual but legal input, or two cooperating sites that each look fine alone -- NOT a change that any ordinary single call exposes at once. Read the code and the tests first to find what the tests do not pin down.

Deliverables, all inside {wt}/seed_out/ (create the directory):
  1. patch.diff  -- `git -C {wt} diff -- gaussian_toolbox > seed_out/patch.diff` of your library change only.
  2. demo.py     -- a small standalone program that exits with code 1 (printing what is wrong) when the property is violated and with code 0 otherwise. It MUST exit 1 with your change applied and exit 0 on the unchanged tree: verify both (do NOT use `git stash` -- the stash is shared between worktrees; use `git diff -- gaussian_toolbox > seed_out/patch.diff && git checkout -- gaussian_toolbox && ... && git apply seed_out/patch.diff`). The demo must test the PROPERTY (compare against an independent NumPy computation of what the statement says), not merely compare old and new code. Put the current working directory first on sys.path so that it imports the tree it is started from.
  3. meta.json   -- {{"property": "{pid}", "change": "...what you changed and where...", "needs_to_manifest": "...the specific condition...", "ran": ["commands you ran and their outcome, including the full test-suite result line"]}}.
Leave the worktree with your change applied (uncommitted) and seed_out/ in place. Do not commit. In your final message give a 5-line summary: file/function changed, the one-line change, what it needs to manifest, the test-suite result line, demo exit codes with/without the change.

Never use process-wide kill commands (pkill/killall); if you need to stop your own test run, kill it by its PID only. Never use `git stash`.
"""
    out = "/tmp/agent%s_prompt_%s.txt" % (rnd, pid)
    open(out, "w").write(txt)
    print(out, len(earlier), "earlier changes")
