#!/bin/bash
# tools/runmutant.sh PATCH PROP [PROP...]  : apply to /repo, run quick checks, revert.  Evidence files are restored.
P="$(realpath "$1")"; shift
cd /verif
git -C /repo diff --quiet || { echo "repo dirty"; exit 9; }
git -C /repo apply "$P" || { echo "patch does not apply"; exit 9; }
TMPD=$(mktemp -d /var/tmp/gtmc-ev.XXXX); cp -a evidence/. "$TMPD"/ 2>/dev/null
trap 'git -C /repo checkout -- .; cp -a "$TMPD"/. /verif/evidence/; rm -rf "$TMPD"' EXIT
for prop in "$@"; do
  out=$(./check "$prop" --tier ${TIER:-quick} 2>&1); rc=$?
  echo "== $(basename $P) $prop exit=$rc $(echo "$out" | grep -c '^VIOLATION') violation lines; first: $(echo "$out" | grep -A1 '^VIOLATION' | sed -n 2p | cut -c1-150)"
done
