#!/bin/bash
# tools/runmutant.sh PATCH PROP [PROP...]  : apply to /repo, run quick checks, revert.  Prints exit codes.
P="$(realpath "$1")"; shift
cd /verif
git -C /repo diff --quiet || { echo "repo dirty"; exit 9; }
git -C /repo apply "$P" || { echo "patch does not apply"; exit 9; }
trap 'git -C /repo checkout -- .' EXIT
for prop in "$@"; do
  out=$(./check "$prop" --tier quick 2>&1); rc=$?
  echo "== $(basename $P) $prop exit=$rc $(echo "$out" | grep -c '^VIOLATION') violation lines; first: $(echo "$out" | grep -A1 '^VIOLATION' | sed -n 2p | cut -c1-150)"
done
