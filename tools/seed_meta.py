#!/venv/bin/python
"""tools/seed_meta.py : (re)write seeded/<id>/meta.json from the agent's meta, confirm.json and detection.json."""
import glob, json, os
for d in sorted(glob.glob("/verif/seeded/*/")):
    sid = os.path.basename(d.rstrip("/"))
    g = lambda f: json.load(open(os.path.join(d, f))) if os.path.exists(os.path.join(d, f)) else {}
    try:
        a = g("meta.agent.json")
    except Exception:
        a = {}
    c, det = g("confirm.json"), g("detection.json")
    meta = dict(
        id=sid,
        property=a.get("property") or sid.split("-")[1],
        origin="independent sub-agent given only the property text and a scratch worktree" if sid.startswith("S-") else "own mutant",
        change=a.get("change"),
        needs_to_manifest=a.get("needs_to_manifest"),
        confirmed=dict(
            how="tools/confirm_seed.sh: fresh scratch worktree of /repo HEAD under /var/tmp; demo.py run without and with patch.diff; unedited pinned suite run with the change (single process, default order)",
            demo_exit_without_change=c.get("demo_exit_clean"), demo_exit_with_change=c.get("demo_exit_mutant"), suite_with_change=c.get("suite_with_change"), repo_head=c.get("repo_head"),
        ),
        detected_by={k: v for k, v in det.items() if v.get("exit") == 1},
        not_detected_by=[k for k, v in det.items() if v.get("exit") != 1],
        how_checked="tools/seed_detect.sh: patch applied to a scratch worktree, ./check <prop> --tier quick with GTMC_REPO pointing at it (exit 1 + VIOLATION line = detected)",
    )
    rej = os.path.join(d, "REJECTED.txt")
    if os.path.exists(rej):
        meta["kept_as_valid_seed"] = False
        meta["rejected_because"] = open(rej).read().strip()
    if a.get("note_by_verifier"):
        meta["note_by_verifier"] = a["note_by_verifier"]
    json.dump(meta, open(os.path.join(d, "meta.json"), "w"), indent=1)
    print(sid, "detected_by", sorted(meta["detected_by"]), "missed_by", meta["not_detected_by"], "| confirm:", c.get("demo_exit_clean"), c.get("demo_exit_mutant"), (c.get("suite_with_change") or "")[:12])
