#!/bin/bash
# tools/confirm_seed.sh ID SRCDIR : copy SRCDIR/{patch.diff,demo.py,meta.json} to /verif/seeded/ID and confirm in a fresh
# scratch worktree: demo exits 0 without / 1 with the change, the unedited pinned suite passes with the change.
ID="$1"; SRC="$2"
D=/verif/seeded/$ID; mkdir -p "$D"
cp "$SRC/patch.diff" "$SRC/demo.py" "$D/" || exit 9
cp "$SRC/meta.json" "$D/meta.agent.json" 2>/dev/null
W=$(mktemp -d /var/tmp/gtmc-confirm.XXXXXX); rmdir "$W"
git -C /repo worktree add -q --detach "$W" HEAD || exit 9
trap 'git -C /repo worktree remove --force "$W"' EXIT
cd "$W"
cp "$D/demo.py" ./_demo.py
/venv/bin/python _demo.py > "$D/demo.clean.log" 2>&1; rc0=$?
git apply "$D/patch.diff" || { echo "patch does not apply to HEAD"; exit 9; }
/venv/bin/python _demo.py > "$D/demo.mutant.log" 2>&1; rc1=$?
/venv/bin/python -m pytest -q -p no:cacheprovider --timeout=900 --continue-on-collection-errors --ignore=_demo.py > "$D/suite.log" 2>&1
suite=$(tail -1 "$D/suite.log")
echo "{\"id\": \"$ID\", \"demo_exit_clean\": $rc0, \"demo_exit_mutant\": $rc1, \"suite_with_change\": \"$suite\", \"repo_head\": \"$(git -C /repo rev-parse --short HEAD)\"}" > "$D/confirm.json"
cat "$D/confirm.json"
