#!/bin/bash
# tools/seed_detect.sh ID PROP [PROP...] : run the quick checks against seeded/ID/patch.diff (scratch worktree), record exit codes
ID="$1"; shift
D=/verif/seeded/$ID
out=$(/verif/tools/runmutant_scratch.sh $D/patch.diff "$@")
echo "$out"
/venv/bin/python - "$ID" <<PY
import json,re,sys,os
d="/verif/seeded/%s"%sys.argv[1]
p=os.path.join(d,"detection.json")
det=json.load(open(p)) if os.path.exists(p) else {}
for line in """$out""".splitlines():
    m=re.match(r"== \S+ (C\d+) exit=(\d+) (\d+) violation lines; first:\s*(.*)",line)
    if m: det[m.group(1)]={"exit":int(m.group(2)),"first":m.group(4)[:160]}
json.dump(det,open(p,"w"),indent=1,sort_keys=True)
PY
