#!/bin/bash
# tools/runmutant_scratch.sh PATCH PROP [PROP...] : apply PATCH to a scratch worktree of /repo (HEAD) under /var/tmp,
# run the checks against it (GTMC_REPO), remove the worktree.  /repo itself and /verif/evidence are untouched.
P="$(realpath "$1")"; shift
cd /verif
W=$(mktemp -d /var/tmp/gtmc-mut.XXXXXX); rmdir "$W"
git -C /repo worktree add -q --detach "$W" HEAD || exit 9
git -C "$W" apply "$P" || { echo "patch does not apply"; git -C /repo worktree remove --force "$W"; exit 9; }
TMPD=$(mktemp -d /var/tmp/gtmc-ev.XXXX)
trap 'git -C /repo worktree remove --force "$W"; rm -rf "$TMPD"' EXIT
for prop in "$@"; do
  out=$(GTMC_REPO="$W" GTMC_EVIDENCE_DIR="$TMPD" GTMC_WORKERS=${GTMC_WORKERS:-8} ./check "$prop" --tier ${TIER:-quick} 2>&1); rc=$?
  echo "== $(basename $(dirname $P))/$(basename $P) $prop exit=$rc $(echo "$out" | grep -c '^VIOLATION') violation lines; first: $(echo "$out" | grep -A1 '^VIOLATION' | sed -n 2p | cut -c1-150)"
done
