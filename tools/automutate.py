#!/venv/bin/python
"""tools/automutate.py [--max N] [--only SUBSTR] : first-order mutants of library functions that no seeded change touched.

For every function of gaussian_toolbox whose source lines are not overlapped by any hunk in seeded/*/patch.diff or
mutants/*.patch, ONE mutant is generated with the first applicable operator on the first applicable body line
(docstrings, comments, signatures, raise/assert lines skipped):
    ' + ' -> ' - ' | ' - ' -> ' + ' | '0.5' -> '0.25' | '2.0' -> '3.0' | ' * ' -> ' / ' | '[:, None]' -> '[None]'
The mutant is applied to a scratch worktree (never /repo) and the quick checks mapped to the file are run one after the
other until one reports a violation (exit 1).  Results go to mutants/auto/RESULTS.jsonl (one line per mutant) and the
patch to mutants/auto/<name>.patch.  These mutants are NOT screened by the pinned suite (some would be killed by it);
they measure whether a change in that function is seen at all by the checks.
"""
import ast, glob, json, os, re, subprocess, sys, tempfile, time

REPO, VERIF = "/repo", "/verif"
MAP = {
    "gaussian_toolbox/measure.py": ["C03", "C02", "C01", "C12"],
    "gaussian_toolbox/pdf.py": ["C05", "C06", "C13", "C19", "C02"],
    "gaussian_toolbox/factor.py": ["C01", "C14", "C04", "C15"],
    "gaussian_toolbox/conditional.py": ["C07", "C08", "C09", "C10", "C13", "C14", "C15", "C11"],
    "gaussian_toolbox/approximate_conditional.py": ["C16", "C17", "C14", "C04", "C18"],
    "gaussian_toolbox/experimental/truncated_measure.py": ["C20", "C16", "C17"],
    "gaussian_toolbox/experimental/misc.py": ["C20", "C16"],
    "gaussian_toolbox/utils/linalg.py": ["C05", "C07", "C01"],
}
OPS = [(" + ", " - "), (" - ", " + "), ("0.5", "0.25"), ("2.0", "3.0"), (" * ", " / "), ("[:, None]", "[None]"), (" / ", " * "), ("[:, 0]", "[:, -1]"), ("[0]", "[-1]"), ("= -", "= "), ("axis=1", "axis=0")]


def functions():
    out = {}
    for rel in MAP:
        src = open(os.path.join(REPO, rel)).read()
        import warnings
        with warnings.catch_warnings():
            warnings.simplefilter("ignore")
            tree = ast.parse(src)
        for node in ast.walk(tree):
            if isinstance(node, ast.ClassDef):
                for n in node.body:
                    if isinstance(n, ast.FunctionDef):
                        out[(rel, node.name + "." + n.name)] = n
        for n in tree.body:
            if isinstance(n, ast.FunctionDef):
                out[(rel, n.name)] = n
    return out


def touched(funcs):
    hit = set()
    for p in glob.glob(VERIF + "/seeded/*/patch.diff") + glob.glob(VERIF + "/mutants/*.patch"):
        cur = None
        for line in open(p):
            m = re.match(r"\+\+\+ b/(\S+)", line)
            if m:
                cur = m.group(1)
            m = re.match(r"@@ -(\d+),?(\d*) ", line)
            if m and cur:
                s, n = int(m.group(1)), int(m.group(2) or 1)
                for (rel, name), node in funcs.items():
                    if rel == cur and not (s + n - 4 < node.lineno or s + 3 > node.end_lineno):
                        hit.add((rel, name))
    return hit


def mutate(rel, node, nth=1):
    lines = open(os.path.join(REPO, rel)).read().split("\n")
    body = node.body
    start = body[0].end_lineno + 1 if (isinstance(body[0], ast.Expr) and isinstance(getattr(body[0], "value", None), ast.Constant) and isinstance(body[0].value.value, str)) else body[0].lineno
    for old, new in OPS:
        for ln in range(start, node.end_lineno + 1):
            t = lines[ln - 1]
            s = t.strip()
            if not s or s.startswith("#") or s.startswith("raise") or s.startswith("assert") or s.startswith('"') or s.startswith("r\"") or "einsum" in t and old in (" * ",) or '"""' in t:
                continue
            code = t.split("#")[0]
            if '"' in code or "'" in code:
                # do not touch string literals (einsum subscripts, dict keys)
                parts = re.split(r"(\"[^\"]*\"|'[^']*')", code)
                idx = [i for i, p_ in enumerate(parts) if i % 2 == 0 and old in p_]
                if not idx:
                    continue
                parts[idx[0]] = parts[idx[0]].replace(old, new, 1)
                lines[ln - 1] = "".join(parts) + t[len(code):]
            else:
                if old not in code:
                    continue
                lines[ln - 1] = code.replace(old, new, 1) + t[len(code):]
            nth -= 1
            if nth == 0:
                return "\n".join(lines), ln, old, new, t.strip()
            lines[ln - 1] = t  # undo, look for the next applicable (operator, line)
    return None


def main():
    maxn = int(sys.argv[sys.argv.index("--max") + 1]) if "--max" in sys.argv else 1000
    only = sys.argv[sys.argv.index("--only") + 1] if "--only" in sys.argv else None
    nth = int(sys.argv[sys.argv.index("--nth") + 1]) if "--nth" in sys.argv else 1
    include_touched = "--all" in sys.argv
    funcs = functions()
    hit = touched(funcs)
    os.makedirs(VERIF + "/mutants/auto", exist_ok=True)
    resf = VERIF + "/mutants/auto/RESULTS.jsonl"
    done = set()
    if os.path.exists(resf):
        for l in open(resf):
            done.add(json.loads(l)["name"])
    todo = []
    for (rel, name), node in sorted(funcs.items()):
        if ((rel, name) in hit and not include_touched) or name.split(".")[-1].startswith("__") or node.end_lineno - node.lineno < 5:
            continue
        if only and only not in rel + ":" + name:
            continue
        if any(isinstance(d, ast.Name) and d.id == "property" for d in node.decorator_list):
            continue
        todo.append((rel, name, node))
    print("untouched functions to mutate:", len(todo), flush=True)
    n = 0
    for rel, name, node in todo:
        mname = "auto_" + os.path.basename(rel)[:-3] + "_" + name.replace(".", "_") + ("" if nth == 1 else "_n%d" % nth)
        if mname in done:
            continue
        m = mutate(rel, node, nth)
        if m is None:
            continue
        if n >= maxn:
            break
        n += 1
        src, ln, old, new, text = m
        W = tempfile.mkdtemp(prefix="gtmc-auto.", dir="/var/tmp")
        os.rmdir(W)
        subprocess.run(["git", "-C", REPO, "worktree", "add", "-q", "--detach", W, "HEAD"], check=True)
        rec = dict(name=mname, file=rel, function=name, line=ln, op="%r -> %r" % (old, new), original=text, checks={})
        try:
            open(os.path.join(W, rel), "w").write(src)
            patch = subprocess.run(["git", "-C", W, "diff"], capture_output=True, text=True).stdout
            open(VERIF + "/mutants/auto/%s.patch" % mname, "w").write(patch)
            ev = tempfile.mkdtemp(prefix="gtmc-ev.", dir="/var/tmp")
            env = dict(os.environ, GTMC_REPO=W, GTMC_EVIDENCE_DIR=ev, GTMC_WORKERS=os.environ.get("GTMC_WORKERS", "8"))
            for prop in MAP[rel]:
                t0 = time.time()
                p = subprocess.run([VERIF + "/check", prop], capture_output=True, text=True, env=env, cwd=VERIF)
                first = ""
                ls = p.stdout.splitlines()
                for i, l in enumerate(ls):
                    if l.startswith("VIOLATION") and i + 1 < len(ls):
                        first = ls[i + 1].strip()[:140]
                        break
                rec["checks"][prop] = dict(exit=p.returncode, first=first, wall=round(time.time() - t0, 1))
                if p.returncode == 1:
                    break
            subprocess.run(["rm", "-rf", ev])
        finally:
            subprocess.run(["git", "-C", REPO, "worktree", "remove", "--force", W])
        rec["detected"] = any(c["exit"] == 1 for c in rec["checks"].values())
        open(resf, "a").write(json.dumps(rec, sort_keys=True) + "\n")
        print(mname, "line", ln, rec["op"], "->", "DETECTED by " + [k for k, c in rec["checks"].items() if c["exit"] == 1][0] if rec["detected"] else "NOT DETECTED " + str({k: c["exit"] for k, c in rec["checks"].items()}), flush=True)


if __name__ == "__main__":
    main()
