#!/venv/bin/python
"""Write /verif/seeded/INDEX.md from seeded/*/meta.json."""
import glob, json, os
rows = []
for f in sorted(glob.glob("/verif/seeded/*/meta.json")):
    m = json.load(open(f))
    ch = (m.get("change") or "").replace("\n", " ").replace("|", "/")
    need = (m.get("needs_to_manifest") or "").replace("\n", " ").replace("|", "/")
    if m.get("kept_as_valid_seed") is False:
        ch = "**REJECTED (does not break the property as stated, see REJECTED.txt)** " + ch
    rows.append("| %s | %s | %s | %s | %s | %s |" % (m["id"], m["property"], ch[:260], need[:220], ", ".join(sorted(m.get("detected_by", {}))) or "-", ", ".join(m.get("not_detected_by", [])) or "-"))
out = ["# Seeded property-breaking changes", "", "Each directory holds patch.diff, demo.py (exit 1 with the change, 0 without), meta.json, confirm.json (my own confirmation in a fresh scratch worktree: demo exit codes + unedited pinned suite result with the change) and detection.json (quick checks run against the change).", "", "| id | property | change | needs to manifest | detected by (quick tier) | run but silent |", "|---|---|---|---|---|---|"] + rows
open("/verif/seeded/INDEX.md", "w").write("\n".join(out) + "\n")
print(len(rows), "rows")
