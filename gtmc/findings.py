"""Known-findings matcher.  Reads /verif/known_findings.json; never writes it.

An entry identifies a genuine, unrepaired defect by site + applicability
predicate + symptom signature (+ optional closed-form magnitude):

  {"id": "F3", "properties": ["C10","C11"], "site": "set_y.value*",
   "symptom": "value", "when": "Dx != Dy and residual_constant",
   "value": "(Dx-Dy)/2*log(2*pi)", "what": "..."}

A violation record matches when its property is listed, its site matches the
glob, its symptom is equal, the predicate evaluates to True on the record's
facts (a name missing from the facts means *no match*), and -- if "value" is
given -- the observed signed residual equals the expression within 1e-6
relative.  Anything else is reported as a VIOLATION.
"""
import fnmatch
import json
import math
import os

_ENV = {"pi": math.pi, "log": math.log, "abs": abs, "min": min, "max": max, "True": True, "False": False, "None": None}


def load(path):
    if not os.path.exists(path):
        return []
    with open(path) as f:
        data = json.load(f)
    return data.get("findings", [])


def _eval(expr, facts):
    try:
        return eval(expr, {"__builtins__": {}}, {**_ENV, **facts})
    except Exception:
        return None


def matches(entry, viol):
    props = entry.get("properties") or [entry.get("property")]
    if viol["property"] not in props:
        return False
    if not fnmatch.fnmatchcase(viol.get("site", ""), entry.get("site", "*")):
        return False
    sym = entry.get("symptom")
    if sym is not None:
        syms = sym if isinstance(sym, list) else [sym]
        if viol.get("symptom") not in syms:
            return False
    facts = dict(viol.get("facts") or {})
    facts["value"] = viol.get("value")
    when = entry.get("when")
    if when:
        if _eval(when, facts) is not True:
            return False
    vexpr = entry.get("value")
    if vexpr:
        want = _eval(vexpr, facts)
        got = viol.get("value")
        if want is None or got is None or isinstance(got, str):
            return False
        if abs(float(got) - float(want)) > 1e-6 * max(1.0, abs(float(want))):
            return False
    return True


def classify(entries, violations):
    """-> (unmatched violations, {finding id: [violations]})"""
    hit = {}
    rest = []
    for v in violations:
        for e in entries:
            if matches(e, v):
                hit.setdefault(e["id"], []).append(v)
                break
        else:
            rest.append(v)
    return rest, hit
