"""Builders: library objects from NumPy parameters, and batch parameter sets."""
import numpy as np
from jax import numpy as jnp

from gaussian_toolbox import conditional, factor, measure, pdf

from . import alphabet as al
from . import refmodel as rm

J = jnp.asarray


# ---------------------------------------------------------------------------
# parameter batches (NumPy).  vi = catalogue index, R = batch size.
# ---------------------------------------------------------------------------
HARD = 50  # value index of the "hard but legal" catalogue entries (cond ~1e3, strong correlation, far means)


def idx(dims, k=0):
    """An index argument in one of the accepted array types (jnp int64, NumPy, jnp int32), chosen by k."""
    return [lambda: jnp.array(dims), lambda: np.array(dims), lambda: jnp.array(dims, dtype=jnp.int32), lambda: np.array(dims, dtype=np.int32)][k % 4]()


def call_matches(ctx, site, got, ref_ln, facts=None, lscale=1.0):
    """The density form (__call__/evaluate) against exp(reference log-value), where that is representable; a NaN/inf
    where the reference is finite is a violation even if the value under/overflows.  lscale: size of the terms whose
    difference ln f is (x'Lambda x/2 for a mean far from the origin) -- an absolute error 1e-8*lscale of ln f is a
    relative error of that size in f."""
    got = np.asarray(got, float)
    ref_ln = np.asarray(ref_ln, float)
    if got.shape != ref_ln.shape:
        return ctx.close(site, got, ref_ln, facts=facts)
    with np.errstate(over="ignore", under="ignore"):
        ref = np.exp(np.clip(ref_ln, -745.0, 709.0))
    rep = np.abs(ref_ln) < 600.0
    g2 = np.where(rep | ~np.isfinite(got), got, ref)
    return ctx.close(site, g2, ref, scale=float(np.max(ref)) if ref.size else 1.0, tol=1e-7 * max(1.0, float(lscale)), facts=facts)


def elementwise_matches(ctx, site, dens, mu, Sig, facts=None, salt=0):
    """The element-wise calling convention (point r for component r only) of a density with reference moments (mu, Sig)."""
    R, D = np.asarray(mu).shape
    xe = al.points(R, D, salt=salt + 7) * 0.5 + np.asarray(mu) * 0.9
    ref = np.array([rm.gauss_logpdf(xe[r:r + 1], mu[r], Sig[r])[0] for r in range(R)])
    with ctx.guard(site + ".call", facts) as g:
        got = np.asarray(dens.evaluate_ln(J(xe), element_wise=True))
        gotc = np.asarray(dens(J(xe), element_wise=True))
    if not g.ok:
        return False
    ok = ctx.close(site, got, ref, scale=ln_scale(xe, Sig), facts=facts)
    ok &= bool(call_matches(ctx, site + "_density", gotc, ref, facts=facts, lscale=ln_scale(xe, Sig)))
    return ok


def ln_scale(x, Sig):
    """max over points and components of x'Sigma^-1 x/2: the natural scale of ln p(x)."""
    out = 1.0
    for S in np.asarray(Sig):
        L = np.linalg.inv(S)
        out = max(out, float(np.max(0.5 * np.einsum("ni,ij,nj->n", x, L, x))))
    return out


def spd_batch(D, R, vi, seed=None, tag=(), diag=False, thin=True):
    """[R,D,D].  vi < len(cat): catalogue entries; vi >= len(cat): seed-generic."""
    if vi == HARD:
        out = []
        for r in range(R):
            if diag or D == 1:
                d = np.array([10.0 ** (-1.5 + 3.0 * ((i + r) % D) / max(1, D - 1)) for i in range(D)]) if D > 1 else np.array([[0.01, 100.0, 1.0][r % 3]])
                out.append(np.diag(d))
            else:
                rho = [0.999, 0.99, 0.9995, 0.995][r % 4]
                C = np.full((D, D), rho) + (1 - rho) * np.eye(D)
                sd = np.array([1.0 + 0.5 * ((i + r) % 3) for i in range(D)])
                out.append(C * sd[:, None] * sd[None, :])
        return np.array(out)
    cat = al.diag_catalogue(D) if diag else al.spd_catalogue(D, thin=thin)
    if vi < len(cat):
        return np.array([al.pick(cat, vi, r) for r in range(R)])
    rng = al.rng_for(seed, "spd", D, R, vi, diag, *tag)
    out = []
    for r in range(R):
        A = al.generic_spd(rng, D)
        if diag:
            A = np.diag(np.diag(A))
        out.append(A)
    return np.array(out)


def vec_batch(D, R, vi, seed=None, tag=()):
    if vi == HARD:
        return np.array([[50.0 * (-1.0) ** (i + r) * (1.0 + 0.1 * i) for i in range(D)] for r in range(R)])
    cat = al.vec_catalogue(D)
    if vi < len(cat):
        return np.array([al.pick(cat, vi, r) for r in range(R)])
    rng = al.rng_for(seed, "vec", D, R, vi, *tag)
    return np.array([al.generic_vec(rng, D) for r in range(R)])


def lnb_batch(R, vi, seed=None, tag=()):
    if vi == HARD:
        return np.array([[-3.0, 2.5, 0.0][r % 3] for r in range(R)])
    if vi < len(al.LNB_CAT):
        return np.array([al.LNB_CAT[(vi + r) % len(al.LNB_CAT)] for r in range(R)])
    rng = al.rng_for(seed, "lnb", R, vi, *tag)
    return rng.uniform(-2, 2, size=R)


def mat_batch(rows, cols, R, vi, seed=None, tag=(), n_int=2):
    if vi < n_int:
        return np.array([al.int_matrix(rows, cols, salt=vi * 3 + r) for r in range(R)])
    rng = al.rng_for(seed, "mat", rows, cols, R, vi, *tag)
    return np.array([al.generic_mat(rng, rows, cols) for r in range(R)])


def vecn_batch(n, R, vi, seed=None, tag=(), n_int=2):
    if vi < n_int:
        return np.array([al.int_vector(n, salt=vi * 2 + r) for r in range(R)])
    rng = al.rng_for(seed, "vecn", n, R, vi, *tag)
    return np.array([al.generic_vec(rng, n) for r in range(R)])


# ---------------------------------------------------------------------------
# library objects
# ---------------------------------------------------------------------------
MEASURE_MODES = ["Lambda", "Lambda+Sigma", "Lambda+Sigma+ldL", "Lambda+Sigma+ldS", "all", "Lambda+ldL"]


def mk_measure(kind, Lam, nu, lnb, mode="Lambda"):
    """mode: which of the optional constructor arguments (Sigma, ln_det_Lambda, ln_det_Sigma) are given next to Lambda."""
    cls = {"GaussianMeasure": measure.GaussianMeasure, "GaussianDiagMeasure": measure.GaussianDiagMeasure}[kind]
    kw = {}
    if "Sigma" in mode or mode == "all":
        kw["Sigma"] = J(np.linalg.inv(Lam))
    if "ldL" in mode or mode == "all":
        kw["ln_det_Lambda"] = J(np.linalg.slogdet(Lam)[1])
    if "ldS" in mode or mode == "all":
        kw["ln_det_Sigma"] = J(-np.linalg.slogdet(Lam)[1])
    return cls(Lambda=J(Lam), nu=J(nu), ln_beta=J(lnb), **kw)


def mk_pdf(kind, Sigma, mu, mode="Sigma"):
    cls = {"GaussianPDF": pdf.GaussianPDF, "GaussianDiagPDF": pdf.GaussianDiagPDF}[kind]
    kw = dict(Sigma=J(Sigma), mu=J(mu))
    if mode in ("Sigma+Lambda", "Sigma+Lambda+lndet"):
        kw["Lambda"] = J(np.linalg.inv(Sigma))
    if mode == "Sigma+Lambda+lndet":
        kw["ln_det_Sigma"] = J(np.linalg.slogdet(Sigma)[1])
    return cls(**kw)


def mk_factor(kind, D, R, vi, seed=None, tag=()):
    """-> (library factor, (Lam, nu, lnb) NumPy reference parameters)."""
    nu = vec_batch(D, R, vi + 1, seed, tag + ("fnu",))
    lnb = lnb_batch(R, vi + 1, seed, tag + ("flnb",))
    if kind == "ConjugateFactor":
        Lam = spd_batch(D, R, vi + 2, seed, tag + ("fL",))
        # make it semidefinite for one component when D>1 (factors only need PSD)
        f = factor.ConjugateFactor(Lambda=J(Lam), nu=J(nu), ln_beta=J(lnb))
    elif kind == "OneRankFactor":
        v = vec_batch(D, R, vi, seed, tag + ("fv",))
        v = np.where(np.all(v == 0, axis=1, keepdims=True), 1.0, v)
        g = np.array([[0.5, 1.0, 3.0][(vi + r) % 3] for r in range(R)])
        Lam = g[:, None, None] * v[:, :, None] * v[:, None, :]
        f = factor.OneRankFactor(v=J(v), g=J(g), nu=J(nu), ln_beta=J(lnb))
    elif kind == "LinearFactor":
        Lam = np.zeros((R, D, D))
        f = factor.LinearFactor(nu=J(nu), ln_beta=J(lnb))
    elif kind == "ConstantFactor":
        Lam = np.zeros((R, D, D))
        nu = np.zeros((R, D))
        f = factor.ConstantFactor(ln_beta=J(lnb), num_dim=D)
    elif kind in ("GaussianMeasure", "GaussianDiagMeasure"):
        Lam = spd_batch(D, R, vi + 2, seed, tag + ("fL",), diag=(kind == "GaussianDiagMeasure"))
        f = mk_measure(kind, Lam, nu, lnb)
    elif kind in ("GaussianPDF", "GaussianDiagPDF"):
        Sig = spd_batch(D, R, vi + 2, seed, tag + ("fS",), diag=(kind == "GaussianDiagPDF"))
        mu = nu
        f = mk_pdf(kind, Sig, mu)
        from . import refmodel as rm

        ps = [rm.moment_to_nat(mu[r], Sig[r]) for r in range(R)]
        Lam = np.array([p[0] for p in ps])
        nu = np.array([p[1] for p in ps])
        lnb = np.array([p[2] for p in ps])
    else:
        raise KeyError(kind)
    return f, (Lam, nu, lnb)


COND_KINDS = ["full", "diag", "identity", "identity_diag", "nncontrol"]


CTORS = ["Sigma", "Lambda", "SigmaLambda", "all", "b_none"]


def _noise_kw(Sy, ctor):
    """Constructor keyword variants for the redundant noise parametrisation."""
    if ctor in ("Sigma", "b_none"):
        return dict(Sigma=J(Sy))
    if ctor == "Lambda":
        return dict(Lambda=J(np.linalg.inv(Sy)))
    if ctor == "SigmaLambda":
        return dict(Sigma=J(Sy), Lambda=J(np.linalg.inv(Sy)))  # covariance and precision given, log-determinant left to the constructor
    if ctor == "all":
        return dict(Sigma=J(Sy), Lambda=J(np.linalg.inv(Sy)), ln_det_Sigma=J(np.linalg.slogdet(Sy)[1]))
    raise KeyError(ctor)


def mk_cond(kind, M, b, Sy, u_rows=None, ctor="Sigma"):
    """Linear conditional of the given kind.  Returns (obj, call_kwargs, (M,b,Sy) as
    effectively realised, per component).  identity kinds ignore M,b (M=I,b=0).
    nncontrol: R of the result = number of control rows.
    ctor: which constructor arguments are used: 'Sigma' | 'Lambda' | 'SigmaLambda' | 'all' (Sigma+Lambda+ln_det_Sigma) | 'b_none' (b omitted = 0)."""
    R = len(Sy)
    if kind in ("full", "diag"):
        cls = conditional.ConditionalGaussianPDF if kind == "full" else conditional.ConditionalGaussianDiagPDF
        if ctor == "b_none":
            b = np.zeros_like(b)
            return cls(M=J(M), **_noise_kw(Sy, ctor)), {}, (M, b, Sy)
        return cls(M=J(M), b=J(b), **_noise_kw(Sy, ctor)), {}, (M, b, Sy)
    if kind in ("identity", "identity_diag"):
        Dy = Sy.shape[1]
        cls = conditional.ConditionalIdentityGaussianPDF if kind == "identity" else conditional.ConditionalIdentityDiagGaussianPDF
        Mi = np.tile(np.eye(Dy)[None], (R, 1, 1))
        return cls(**_noise_kw(Sy, ctor)), {}, (Mi, np.zeros((R, Dy)), Sy)
    if kind == "nncontrol":
        # control function: affine in u so that row r of u reproduces (M[r], b[r]).
        Ru, Dy, Dx = M.shape
        Du = 2
        # control values that are NOT exactly representable in single precision, far from the origin and close together: the
        # control function is then sensitive to the low bits of u (a silent float32 round trip of u shows up at ~1e-5)
        u = np.array([[30.3, 0.7], [30.31, 0.7], [30.3, 0.71]])[:Ru]
        target = np.concatenate([M.reshape(Ru, -1), b], axis=1)  # [Ru, Dy*(Dx+1)]
        # W u_r + c = target_r : choose c = target_0 - W u_0 ... solve exactly for Ru<=3 via lstsq on [u,1]
        U1 = np.concatenate([u, np.ones((Ru, 1))], axis=1)
        if Ru <= 3:
            # the affine control function is pinned by three control values (the unused ones map to other O(1) targets), so
            # that it has O(100) slopes whatever the number of rows actually used
            u3 = np.array([[30.3, 0.7], [30.31, 0.7], [30.3, 0.71]])
            t3 = np.concatenate([target] + [(target[0] * -0.5 + 1.0 + k)[None] for k in range(3 - Ru)], axis=0)
            coef = np.linalg.solve(np.concatenate([u3, np.ones((3, 1))], axis=1), t3)
        else:
            raise ValueError("nncontrol builder supports <=3 control rows")
        coefJ = J(coef)

        def control_func(uu, coefJ=coefJ):
            return jnp.concatenate([uu, jnp.ones((uu.shape[0], 1))], axis=1) @ coefJ

        eff = U1 @ coef
        assert np.allclose(eff, target, atol=1e-9), np.max(np.abs(eff - target))
        obj = conditional.NNControlGaussianConditional(Sigma=J(Sy[:1]), num_cond_dim=Dx, num_control_dim=Du, control_func=control_func)
        Syr = np.tile(Sy[:1], (Ru, 1, 1))
        return obj, {"u": J(u)}, (M, b, Syr)
    raise KeyError(kind)


def np_(x):
    return None if x is None else np.asarray(x)


def cache_mask(o):
    """Which caches are populated -- and, when the batch sizes of the exposed arrays do NOT all agree (a malformed object),
    their batch sizes: such an object must never be merged with a well-formed one that evaluates to the same function."""
    mask = "".join(c for c, a in (("S", "Sigma"), ("s", "ln_det_Sigma"), ("l", "ln_det_Lambda"), ("m", "mu"), ("Z", "lnZ")) if getattr(o, a, None) is not None)
    sizes = []
    for a in ("Lambda", "nu", "ln_beta", "Sigma", "ln_det_Sigma", "ln_det_Lambda", "mu", "lnZ", "M", "b"):
        v = getattr(o, a, None)
        if v is not None and hasattr(v, "shape") and len(v.shape) >= 1:
            sizes.append((a, int(v.shape[0])))
    if len({s for _, s in sizes}) > 1:
        mask += "!" + ",".join("%s%d" % (a, s) for a, s in sizes)
    return mask


def exercise_pdf(o):
    """Call (and discard) a broad set of public read-only operations on a density, so that anything an
    implementation memoises is populated before the object is changed in place."""
    D, R = o.D, o.R
    x = J(al.points(2, D, salt=11))
    o.evaluate_ln(x)
    o.evaluate(x)
    for key in ("1", "x", "xx'"):
        o.integrate(key)
    o.integrate("(Ax+a)'(Bx+b)")
    o.integrate("(Ax+a)(Bx+b)'")
    o.integrate("xb'xx'", b_vec=J(al.int_vector(D, salt=1) * 0.5))
    o.integrate("(Ax+a)'(Bx+b)(Cx+c)'(Dx+d)")
    o.log_integral()
    o.log_integral_light()
    o.entropy()
    o.kl_divergence(o)
    for k in range(1, D + 1):
        o.get_marginal(jnp.arange(k))
        o.get_marginal(jnp.arange(D - 1, D - 1 - k, -1))
    if D >= 2:
        for k in range(1, D):
            o.condition_on(jnp.arange(k))
            o.condition_on(jnp.arange(D - 1, D - 1 - k, -1))
            o.condition_on_explicit(jnp.arange(k), jnp.arange(k, D))
    o.get_density_of_linear_sum(J(np.eye(D)[None]), J(np.zeros((1, D))))
    o.multiply(factor.LinearFactor(nu=J(np.ones((1, D)))), update_full=True)
    o.hadamard(factor.OneRankFactor(v=J(np.ones((1, D)))), update_full=True)
    o.slice(jnp.array([0]))
    o.get_density()
    import jax

    o.sample(jax.random.PRNGKey(0), 1)
    return o


def exercise_cond(o, kw=None):
    """The same for a linear conditional (kw: control variable of the NN-controlled class)."""
    kw = kw or {}
    Dx, Dy = o.Dx, o.Dy
    x = J(al.points(2, Dx, salt=11))
    p = mk_pdf("GaussianPDF", np.eye(Dx)[None] * 1.5, np.ones((1, Dx)) * 0.3)
    if kw:
        o.condition_on_x_u(x, kw["u"])
        o.set_control_variable(kw["u"])
    else:
        o.condition_on_x(x)
        o.slice(jnp.array([0]))
    o.get_conditional_mu(x, **kw)
    if o.R == 1 or kw:
        o.set_y(J(al.points(1 if not kw else len(kw["u"]), Dy, salt=12)), **kw)
    else:
        o.set_y(J(al.points(o.R, Dy, salt=12)))
    o.affine_joint_transformation(p, **kw)
    o.affine_marginal_transformation(p, **kw)
    o.affine_conditional_transformation(p, **kw)
    o.conditional_entropy(p, **kw)
    o.mutual_information(p, **kw)
    if o.R == 1 and (not kw or len(kw["u"]) == 1):
        q = mk_pdf("GaussianPDF", np.eye(Dx + Dy)[None] * 1.2, np.zeros((1, Dx + Dy)))
        o.integrate_log_conditional(q, **kw)
        o.integrate_log_conditional_y(p, **kw)
    return o


def pdf_variants(kind, Sig, mu, which=("fresh", "Sigma+Lambda", "Sigma+Lambda+lndet", "sliced_neg", "updated", "queried")):
    """Densities reached in different ways -> list of (label, builder, mu_eff, Sig_eff).
      fresh / Sigma+Lambda / Sigma+Lambda+lndet : the three constructor argument combinations;
      sliced_neg : a larger batch sliced with NEGATIVE indices;
      updated    : built with other parameters, queried, then every component replaced in place by update();
      queried    : fresh, after a broad set of read-only operations;
      replaced_mu: another density with the same covariance whose mean is then replaced through the dataclass replace();
    and, for an even number of components R (the effective parameters then differ from (mu, Sig) and are returned):
      conditioned   : an R/2-component linear conditional conditioned on 2 points (layout r*2+n);
      prod_linear   : get_density() of [R/2-component density x 2-component LinearFactor], covariance update requested,
                      the left operand having a cached covariance;
      prod_constant : the same with a ConstantFactor."""
    R, D = mu.shape
    out = []
    for w in which:
        if w == "fresh":
            out.append((w, lambda: mk_pdf(kind, Sig, mu), mu, Sig))
        elif w in ("Sigma+Lambda", "Sigma+Lambda+lndet"):
            out.append((w, lambda w=w: mk_pdf(kind, Sig, mu, mode=w), mu, Sig))
        elif w == "sliced_neg":
            def b():
                S2 = np.concatenate([Sig[:1] * 1.5, Sig], axis=0)
                m2 = np.concatenate([mu[:1] - 2.0, mu], axis=0)
                return mk_pdf(kind, S2, m2).slice(jnp.array(list(range(-R, 0))))
            out.append((w, b, mu, Sig))
        elif w == "updated":
            def b():
                o = exercise_pdf(mk_pdf(kind, Sig * 2.0, mu + 1.0))
                o.update(jnp.arange(R), mk_pdf(kind, Sig, mu))
                return o
            out.append((w, b, mu, Sig))
        elif w == "prod_conjugate":
            # this density x a single general factor with a NON-diagonal precision, covariance NOT requested, then get_density()
            Lf = np.array([[2.0 if i == j else 0.7 for j in range(D)] for i in range(D)])
            nf = al.int_vector(D, salt=4) * 0.5
            mu_e, Sig_e = [], []
            for r in range(R):
                Lr = np.linalg.inv(Sig[r])
                Se = np.linalg.inv(Lr + Lf)
                Sig_e.append(0.5 * (Se + Se.T))
                mu_e.append(Se @ (Lr @ mu[r] + nf))
            out.append((w, lambda: mk_pdf(kind, Sig, mu).multiply(factor.ConjugateFactor(Lambda=J(Lf[None]), nu=J(nf[None])), update_full=False).get_density(), np.array(mu_e), np.array(Sig_e)))
        elif w == "replaced_mu":
            out.append((w, lambda: mk_pdf(kind, Sig, mu * -0.5 + 1.5).replace(mu=J(mu)), mu, Sig))
        elif w == "queried":
            def b():
                return exercise_pdf(mk_pdf(kind, Sig, mu))
            out.append((w, b, mu, Sig))
        elif w == "conditioned" and R % 2 == 0 and R >= 2:
            Rc = R // 2
            M = np.array([al.int_matrix(D, D, salt=r) * 0.5 for r in range(Rc)])
            bb = mu[::2]
            X = al.points(2, D, salt=1)
            S_ = Sig[::2]
            mu_e = np.array([M[r] @ X[n] + bb[r] for r in range(Rc) for n in range(2)])
            Sig_e = np.array([S_[r] for r in range(Rc) for n in range(2)])
            ck = "diag" if "Diag" in kind else "full"
            out.append((w, lambda: mk_cond(ck, M, bb, S_)[0].condition_on_x(J(X)), mu_e, Sig_e))
        elif w in ("hadamard_onerank", "multiply_onerank"):
            # this density (cached covariance) x a rank-one factor with an explicit gain og != 1, covariance update requested
            # (Sherman-Morrison shortcut), then get_density(); hadamard: one factor entry per component, multiply: one entry
            Rf = R if w == "hadamard_onerank" else 1
            ov = np.array([al.int_vector(D, salt=j + 2) * 0.5 + 0.25 for j in range(Rf)])
            og = np.array([0.7 + 0.6 * j for j in range(Rf)])
            onf = np.array([al.int_vector(D, salt=j + 5) * 0.5 for j in range(Rf)])
            omu_e, oSig_e = [], []
            for r in range(R):
                j = r if Rf > 1 else 0
                Lr = np.linalg.inv(Sig[r])
                Se = np.linalg.inv(Lr + og[j] * np.outer(ov[j], ov[j]))
                oSig_e.append(0.5 * (Se + Se.T))
                omu_e.append(Se @ (Lr @ mu[r] + onf[j]))

            def b(w=w, ov=ov, og=og, onf=onf, Rf=Rf):
                f = factor.OneRankFactor(v=J(ov), g=J(og), nu=J(onf), ln_beta=J(np.linspace(0.2, -0.3, Rf)))
                p0 = mk_pdf(kind, Sig, mu)
                return (p0.hadamard(f, update_full=True) if w == "hadamard_onerank" else p0.multiply(f, update_full=True)).get_density()
            out.append((w, b, np.array(omu_e), np.array(oSig_e)))
        elif w.startswith("hadamard_linear_bcast") and R >= 2:
            # ONE density (cached covariance) tilted by R linear factors through hadamard (broadcast 1 x R), covariance update
            # requested, then get_density(); optionally followed by a second derivation (identity marginal / reversed slice)
            hnu = np.array([al.int_vector(D, salt=j + 3) * 0.5 for j in range(R)])
            hmu = np.array([mu[0] + Sig[0] @ hnu[j] for j in range(R)])
            hSig = np.array([Sig[0] for j in range(R)])
            then = w.split(">")[1] if ">" in w else None

            def hb(hnu=hnu, then=then):
                d = mk_pdf(kind, Sig[:1], mu[:1]).hadamard(factor.LinearFactor(nu=J(hnu), ln_beta=J(np.linspace(0.1, -0.4, R))), update_full=True).get_density()
                if then == "marginal":
                    d = d.get_marginal(jnp.arange(D))
                elif then == "slice":
                    d = d.slice(jnp.arange(R)[::-1])
                return d
            out.append((w, hb, hmu[::-1] if then == "slice" else hmu, hSig))
        elif w == "posterior_identity":
            # the posterior p(x|y) of an identity-mean observation with CORRELATED noise (general identity class), the prior
            # being this density (possibly of the diagonal class): conditional transformation, then conditioning on y
            pN = np.array([[1.0 if i == j else 0.4 for j in range(D)] for i in range(D)]) * 0.8
            py = al.int_vector(D, salt=6) * 0.5 + 0.25
            pmu, pSig = [], []
            for r in range(R):
                Lr, Ln = np.linalg.inv(Sig[r]), np.linalg.inv(pN)
                Sp = np.linalg.inv(Lr + Ln)
                pSig.append(0.5 * (Sp + Sp.T))
                pmu.append(Sp @ (Lr @ mu[r] + Ln @ py))
            out.append((w, lambda pN=pN, py=py: conditional.ConditionalIdentityGaussianPDF(Sigma=J(pN[None])).affine_conditional_transformation(mk_pdf(kind, Sig, mu)).condition_on_x(J(py[None])), np.array(pmu), np.array(pSig)))
        elif w == "joint_of_cond" and D >= 2:
            # the joint density produced by a linear conditional p(x2|x1) applied to priors p_r(x1) (layout 1 x R)
            Dx = D // 2
            ia, ib = list(range(Dx, D)), list(range(Dx))
            jM, jb, jS = rm.conditional(mu[0], Sig[0], ia, ib)
            jM = jM + al.int_matrix(D - Dx, Dx, salt=3) * 0.5  # a non-zero regression matrix whatever the catalogue entry
            jmx = np.array([mu[r][ib] for r in range(R)])
            jSx = np.array([Sig[r][np.ix_(ib, ib)] for r in range(R)])
            je = [rm.joint(jmx[r], jSx[r], jM, jb, jS) for r in range(R)]
            ck = "diag" if "Diag" in kind else "full"
            jSc = np.diag(np.diag(jS)) if ck == "diag" else jS
            if ck == "diag":
                je = [rm.joint(jmx[r], jSx[r], jM, jb, jSc) for r in range(R)]
            out.append((w, lambda jM=jM, jb=jb, jSc=jSc, jmx=jmx, jSx=jSx, ck=ck: mk_cond(ck, jM[None], jb[None], jSc[None])[0].affine_joint_transformation(mk_pdf(kind, jSx, jmx)), np.array([j[0] for j in je]), np.array([j[1] for j in je])))
        elif w in ("prod_linear", "prod_constant") and R % 2 == 0 and R >= 2:
            Rc = R // 2
            S_, m_ = Sig[::2], mu[::2]
            nuf = np.array([al.int_vector(D, salt=j + 1) * 0.5 for j in range(2)])
            if w == "prod_linear":
                mu_e = np.array([m_[r] + S_[r] @ nuf[j] for r in range(Rc) for j in range(2)])
                mkf = lambda: factor.LinearFactor(nu=J(nuf), ln_beta=J(np.array([0.3, -0.2])))
            else:
                mu_e = np.array([m_[r] for r in range(Rc) for j in range(2)])
                mkf = lambda: factor.ConstantFactor(ln_beta=J(np.array([0.3, -0.2])), num_dim=D)
            Sig_e = np.array([S_[r] for r in range(Rc) for j in range(2)])
            out.append((w, lambda mkf=mkf: mk_pdf(kind, S_, m_).multiply(mkf(), update_full=True).get_density(), mu_e, Sig_e))
    return out
