"""gtmc command line:  python -m gtmc.cli C07 [--tier quick|thorough] [--replay FILE]

exit 0  property held on everything explored (KNOWN-FINDING lines allowed)
exit 1  a violation not listed in known_findings.json (VIOLATION line printed)
exit 2  harness error (a shard crashed, evidence invalid) -- never a verdict
"""
import argparse
import concurrent.futures as cf
import importlib
import json
import multiprocessing as mp
import os
import subprocess
import sys
import time

VERIF = os.path.dirname(os.path.dirname(os.path.abspath(__file__)))


def main(argv=None):
    ap = argparse.ArgumentParser()
    ap.add_argument("prop")
    ap.add_argument("--tier", default=os.environ.get("VERIF_TIER") or "quick", choices=["quick", "thorough"])
    ap.add_argument("--replay", default=None)
    ap.add_argument("--workers", type=int, default=int(os.environ.get("GTMC_WORKERS", "0")) or min(16, os.cpu_count() or 4))
    ap.add_argument("--only-shard", default=None, help="debug: run only shards whose id contains this text")
    args = ap.parse_args(argv)
    prop = args.prop.upper()
    try:
        seed = int(os.environ.get("VERIF_SEED", "0") or 0)
    except ValueError:
        seed = 0
    repo = os.path.realpath(os.environ.get("GTMC_REPO", "/repo"))
    os.environ.setdefault("PYTHONHASHSEED", "0")
    os.environ.setdefault("GTMC_JAX_CACHE", os.path.join(VERIF, ".cache", "jax"))

    from gtmc import engine, findings

    t0 = time.time()
    engine.worker_init(repo, VERIF)
    modname = "gtmc.props.%s" % prop.lower()
    drv = importlib.import_module(modname)

    only = None
    if args.replay:
        with open(args.replay) as f:
            rep = json.load(f)
        shards = [rep["shard"]]
        only = rep.get("case_key")
        seed = rep.get("seed", seed)
        args.tier = rep.get("tier", args.tier)
    else:
        shards = drv.shards(args.tier, seed)
        if args.only_shard:
            shards = [s for s in shards if args.only_shard in str(s.get("id"))]
    for s in shards:
        s.setdefault("tier", args.tier)
        s.setdefault("seed", seed)
    shards.sort(key=lambda s: -float(s.get("cost", 1.0)))
    budget = float(getattr(drv, "BUDGET", {}).get(args.tier, 900 if args.tier == "quick" else 7200))
    for s in shards:
        s.setdefault("deadline", t0 + budget)  # absolute: exploration loops stop at the last completed bound and say so

    # environment dimension: every third shard (by a hash of its id) runs in workers that imported the library BEFORE x64 was
    # switched on -- the import order of the library's own tests and notebooks; x64 is on for every call either way
    for s in shards:
        s.setdefault("import_first", int(engine.khash([str(s.get("id"))]), 16) % 3 == 0)
    results, errors, capped = [], [], 0
    nwork = max(1, min(args.workers, len(shards), int(getattr(drv, "WORKERS", {}).get(args.tier, 10 ** 6))))  # a driver may cap its own parallelism (memory)
    ctxmp = mp.get_context("spawn")
    if only is not None:
        if shards[0].get("import_first"):
            with cf.ProcessPoolExecutor(max_workers=1, mp_context=ctxmp, initializer=engine.worker_init, initargs=(repo, VERIF, True)) as ex:
                for s in shards:
                    results.append(ex.submit(engine.worker_run, (modname, s, only)).result())
        else:
            for s in shards:
                results.append(engine.worker_run((modname, s, only)))
    else:
        nB = sum(1 for s in shards if s["import_first"])
        wB = 0 if nB == 0 else max(1, min(nB, int(round(nwork * nB / float(len(shards))))))
        wA = max(1, nwork - wB)
        with cf.ProcessPoolExecutor(max_workers=wA, mp_context=ctxmp, initializer=engine.worker_init, initargs=(repo, VERIF)) as ex, cf.ProcessPoolExecutor(max_workers=max(1, wB), mp_context=ctxmp, initializer=engine.worker_init, initargs=(repo, VERIF, True)) as exB:
            futs = [(exB if s["import_first"] else ex).submit(engine.worker_run, (modname, s, None)) for s in shards]
            pending = set(futs)
            while pending:
                done, pending = cf.wait(pending, timeout=5.0, return_when=cf.FIRST_COMPLETED)
                for f in done:
                    try:
                        results.append(f.result())
                    except Exception as e:  # worker died
                        errors.append(repr(e))
                if time.time() - t0 > budget and pending:
                    for f in list(pending):
                        if f.cancel():
                            pending.discard(f)
                            capped += 1
                    # running shards are allowed to finish (drivers watch their own deadline)
    for r in results:
        if r.get("error"):
            errors.append("shard %s: %s" % (r["shard"].get("id"), r["error"]))

    # ---- aggregate ----------------------------------------------------------
    evaluations = sum(r["evaluations"] for r in results)
    distinct = set()
    counters = {}
    samples = []
    viols = []
    nviol_total = 0
    for r in results:
        distinct.update(r["nontrivial"])
        for k, v in r["counters"].items():
            if k.startswith("max_"):
                counters[k] = max(counters.get(k, v), v)
            else:
                counters[k] = counters.get(k, 0) + v
        viols.extend(r["violations"])
        nviol_total += r["n_violations"]
    results.sort(key=lambda r: str(r["shard"].get("id")))
    for r in results:
        for s in r["samples"]:
            if len(samples) < 6:
                samples.append(s)

    entries = findings.load(os.path.join(VERIF, "known_findings.json"))
    rest, hit = findings.classify(entries, viols)

    # ---- evidence -------------------------------------------------------------
    level = drv.LEVEL
    coverage = dict(
        evaluations=int(evaluations),
        distinct_nontrivial=int(len(distinct)),
        rule=drv.RULE,
        samples=samples if samples else [{"note": "no sample recorded"}],
        exhaustive=bool(capped == 0 and not errors and counters.get("capped", 0) == 0),
        shards=len(results),
        shards_import_before_x64=int(sum(1 for r in results if r["shard"].get("import_first"))),
        shards_not_run_budget_cap=int(capped),
        counters={k: (int(v) if float(v).is_integer() else float(v)) for k, v in sorted(counters.items())},
        bounds=getattr(drv, "BOUNDS", {}).get(args.tier, {}),
        known_findings_observed=sorted(hit.keys()),
    )
    if level == "model_checking":
        coverage["states"] = int(counters.get("states", 0))
        coverage["transitions"] = int(counters.get("transitions", 0))
        coverage["traces_validated_against_impl"] = int(counters.get("traces_validated_against_impl", 0))
    if hasattr(drv, "finalize"):
        try:
            coverage.update(drv.finalize(results, args.tier, seed) or {})
        except Exception as e:
            errors.append("finalize: %r" % (e,))
    ev = dict(
        property_id=prop,
        tier=args.tier,
        seed=int(seed),
        level=level,
        coverage=coverage,
        assumptions=list(drv.ASSUMPTIONS),
        wall_s=round(time.time() - t0, 2),
        violations=int(len(rest)),
    )
    if not args.replay:
        evdir = os.environ.get("GTMC_EVIDENCE_DIR") or os.path.join(VERIF, "evidence")  # (mutant self-tests write elsewhere)
        os.makedirs(evdir, exist_ok=True)
        evpath = os.path.join(evdir, "%s.json" % prop)
        with open(evpath, "w") as f:
            json.dump(ev, f, indent=1, sort_keys=True)
            f.write("\n")

    # ---- report -------------------------------------------------------------
    print("gtmc %s tier=%s seed=%d shards=%d evaluations=%d distinct=%d comparisons=%d wall=%.1fs" % (prop, args.tier, seed, len(results), evaluations, len(distinct), counters.get("comparisons", 0), time.time() - t0))
    if level == "model_checking":
        print("  states=%d transitions=%d traces_validated=%d" % (coverage["states"], coverage["transitions"], coverage["traces_validated_against_impl"]))
    if capped:
        print("  CAP: %d shards not run (budget %.0fs); exhaustive=false" % (capped, budget))
    for e in entries:
        props = e.get("properties") or [e.get("property")]
        if prop in props and e["id"] in hit:
            print("KNOWN-FINDING: property=%s %s [%s; %d cases]" % (prop, e["what"], e["id"], len(hit[e["id"]])))
    code = 0
    if rest:
        code = 1
        os.makedirs(os.path.join(VERIF, "replays", prop), exist_ok=True)
        seen_sites = {}
        for v in rest:
            k = (v["site"], v["symptom"])
            seen_sites.setdefault(k, []).append(v)
        n = 0
        for k, vs in sorted(seen_sites.items()):
            for v in vs[:2]:
                v = dict(v)
                v["tier"] = args.tier
                v["seed"] = seed
                path = os.path.join(VERIF, "replays", prop, "%s.json" % engine.khash([v["shard"].get("id"), v["case_key"], v["site"], v["symptom"]]))
                with open(path, "w") as f:
                    json.dump(v, f, indent=1, sort_keys=True)
                print("VIOLATION property=%s replay=%s" % (prop, path))
                print("   site=%s symptom=%s value=%s %s (%d like it)" % (v["site"], v["symptom"], v.get("value"), v.get("msg", "")[:160], len(vs)))
                n += 1
                if n >= 12:
                    break
            if n >= 12:
                break
        print("  %d violation records (%d total incl. capped per shard)" % (len(rest), nviol_total))
    if args.replay and not rest:
        print("replay: no violation reproduced (%d cases run)" % evaluations)
    if errors:
        for e in errors[:5]:
            print("HARNESS-ERROR: %s" % e, file=sys.stderr)
        if code == 0:
            code = 2
    if not args.replay:
        code2 = validate(evpath)
        if code2 and code == 0:
            code = 2
    return code


def validate(evpath):
    """Validate the evidence file against the schema with python3-vt (jsonschema)."""
    schema = "/root/.vp/EVIDENCE.schema.json"
    local = os.path.join(VERIF, "gtmc", "EVIDENCE.schema.json")
    if not os.path.exists(schema):
        schema = local
    if not os.path.exists(schema):
        return 0
    code = "import json,sys,jsonschema; jsonschema.validate(json.load(open(sys.argv[1])), json.load(open(sys.argv[2])))"
    for py in ("python3-vt", "/opt/veriftools/pyvenv/bin/python"):
        try:
            p = subprocess.run([py, "-c", code, evpath, schema], capture_output=True, text=True, timeout=60)
        except (FileNotFoundError, subprocess.TimeoutExpired):
            continue
        if p.returncode != 0:
            print("HARNESS-ERROR: evidence does not validate: %s" % p.stderr[-400:], file=sys.stderr)
            return 2
        return 0
    return 0


if __name__ == "__main__":
    sys.exit(main())
