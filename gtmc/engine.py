"""Shard runner, per-shard collector, violation records, BFS helper.

A *driver* (gtmc/props/cNN.py) exposes
    PROPERTY, LEVEL, RULE, ASSUMPTIONS
    shards(tier, seed)      -> list of picklable shard descriptors (dicts)
    run_shard(shard, ctx)   -> None; reports through ctx
Workers are spawned processes (never forked after JAX is imported); each imports
gaussian_toolbox from the repository root under test and asserts that.
"""
import hashlib
import json
import math
import os
import sys
import time
import traceback

import numpy as np

MAX_VIOL_PER_SHARD = 40
MAX_SAMPLES_PER_SHARD = 2


def _jsonable(o):
    if isinstance(o, dict):
        return {str(k): _jsonable(v) for k, v in o.items()}
    if isinstance(o, (list, tuple)):
        return [_jsonable(v) for v in o]
    if isinstance(o, (np.floating, float)):
        f = float(o)
        return f if math.isfinite(f) else repr(f)
    if isinstance(o, (np.integer,)):
        return int(o)
    if isinstance(o, (np.bool_,)):
        return bool(o)
    if isinstance(o, np.ndarray) or hasattr(o, "__array__"):
        return _jsonable(np.asarray(o).tolist())
    if o is None or isinstance(o, (int, str, bool)):
        return o
    return repr(o)


def khash(obj):
    return hashlib.sha1(json.dumps(_jsonable(obj), sort_keys=True).encode()).hexdigest()[:16]


class Ctx:
    """Per-shard collector handed to a driver's run_shard."""

    def __init__(self, prop, shard, only=None):
        self.prop = prop
        self.shard = shard
        self.only = only
        self.evaluations = 0
        self.nontrivial = set()
        self.samples = []
        self.violations = []
        self.n_violations = 0
        self.counters = {}
        self.case_key = None
        self.case_desc = None
        self.t0 = time.time()

    # -- cases ------------------------------------------------------------
    def case(self, desc, nontrivial=True):
        """Begin a case.  desc: small JSON-able dict that identifies it inside the
        shard.  Returns False when filtered out by --replay."""
        key = khash(desc)
        if self.only is not None and key != self.only:
            return False
        self.case_key = key
        self.case_desc = desc
        self.evaluations += 1
        if nontrivial:
            self.nontrivial.add(khash([self.shard.get("id"), key]))
        return True

    def sample(self, obj):
        if len(self.samples) < MAX_SAMPLES_PER_SHARD:
            self.samples.append(_jsonable(obj))

    def count(self, name, n=1):
        self.counters[name] = self.counters.get(name, 0) + n

    def cmax(self, name, v):
        self.counters[name] = max(self.counters.get(name, v), v)

    # -- verdicts -----------------------------------------------------------
    def fail(self, site, symptom, value=None, observed=None, expected=None, msg="", facts=None):
        self.n_violations += 1
        if len(self.violations) >= MAX_VIOL_PER_SHARD:
            return
        facts = dict(facts or {})
        for k, v in (self.shard.get("facts") or {}).items():
            facts.setdefault(k, v)
        for k, v in (self.case_desc or {}).items():
            if isinstance(v, (int, float, str, bool)) or v is None:
                facts.setdefault(k, v)
        self.violations.append(
            _jsonable(
                dict(
                    property=self.prop,
                    site=site,
                    symptom=symptom,
                    value=value,
                    observed=observed,
                    expected=expected,
                    msg=msg,
                    facts=facts,
                    shard=self.shard,
                    case_key=self.case_key,
                    case=self.case_desc,
                )
            )
        )

    def close(self, site, got, ref, scale=1.0, tol=1e-8, symptom="value", facts=None, msg=""):
        """|got-ref| <= tol*max(1,|ref|_inf,scale); shape is part of the comparison."""
        got = np.asarray(got, float)
        ref = np.asarray(ref, float)
        self.count("comparisons")
        if got.shape != ref.shape:
            self.fail(site, "shape", observed=list(got.shape), expected=list(ref.shape), facts=facts, msg=msg)
            return False
        if got.size == 0:
            return True
        if not np.all(np.isfinite(got)):
            if np.all(np.isfinite(ref)):
                self.fail(site, "nonfinite", observed=got, expected=ref, facts=facts, msg=msg)
                return False
        with np.errstate(invalid="ignore"):
            err = np.abs(got - ref)
        bound = tol * max(1.0, float(np.max(np.abs(ref))) if np.all(np.isfinite(ref)) else 1.0, float(scale))
        bad = ~(err <= bound)
        # identical infinities are equal
        bad &= ~((got == ref))
        if np.any(bad):
            i = int(np.argmax(np.where(np.isfinite(err), err, np.inf)))
            d = (got - ref).ravel()
            val = float(d[i]) if np.isfinite(d[i]) else None
            const = bool(np.all(np.isfinite(d)) and (np.max(d) - np.min(d)) <= 1e-9 * max(1.0, abs(float(d[i]))))
            f = dict(facts or {})
            f["residual_constant"] = const
            self.fail(site, symptom, value=val, observed=got, expected=ref, facts=f, msg=msg + " maxerr=%.3e bound=%.1e" % (float(np.nanmax(err)), bound))
            return False
        return True

    def le(self, site, a, b, slack=0.0, symptom="not_le", facts=None, msg=""):
        a = np.asarray(a, float)
        b = np.asarray(b, float)
        self.count("comparisons")
        if not np.all(np.isfinite(a)) or not np.all(a <= b + slack):
            with np.errstate(invalid="ignore"):
                v = float(np.nanmax(a - b)) if np.any(np.isfinite(a - b)) else None
            self.fail(site, symptom, value=v, observed=a, expected=b, facts=facts, msg=msg)
            return False
        return True

    def guard(self, site, facts=None, pass_through=()):
        return _Guard(self, site, facts, pass_through)


class _Guard:
    """Turns an exception on an in-scope input into a violation ('raises')."""

    def __init__(self, ctx, site, facts, pass_through=()):
        self.ctx, self.site, self.facts = ctx, site, facts
        self.pass_through = pass_through
        self.ok = True

    def __enter__(self):
        return self

    def __exit__(self, et, ev, tb):
        if et is None:
            return False
        if issubclass(et, (KeyboardInterrupt, SystemExit, MemoryError)):
            return False
        if self.pass_through and issubclass(et, self.pass_through):
            return False
        self.ok = False
        last = traceback.extract_tb(tb)[-1]
        self.ctx.fail(
            self.site,
            "raises",
            observed="%s: %s" % (et.__name__, str(ev)[:300]),
            msg="at %s:%s in %s" % (os.path.basename(last.filename), last.lineno, last.name),
            facts=self.facts,
        )
        return True


# ---------------------------------------------------------------------------
# worker side
# ---------------------------------------------------------------------------
_REPO = None


def worker_init(repo, verif, import_first=False):
    """import_first: import the library BEFORE jax_enable_x64 is switched on (the order used by the library's own tests
    and notebooks); x64 is on for every construction and call either way.  Module-level constants evaluated at import
    time are the only thing that can tell the two orders apart."""
    global _REPO
    _REPO = repo
    os.environ.setdefault("JAX_PLATFORMS", "cpu")
    os.environ.setdefault("XLA_FLAGS", "--xla_cpu_multi_thread_eigen=false intra_op_parallelism_threads=1 --xla_force_host_platform_device_count=1")
    os.environ.setdefault("OMP_NUM_THREADS", "1")
    os.environ.setdefault("OPENBLAS_NUM_THREADS", "1")
    os.environ.setdefault("MKL_NUM_THREADS", "1")
    os.environ["GAUSSIAN_TOOLBOX_VERIF"] = "1"
    for p in (verif, repo):
        if p in sys.path:
            sys.path.remove(p)
    sys.path.insert(0, verif)
    sys.path.insert(0, repo)
    import warnings

    warnings.filterwarnings("ignore")
    import jax

    if import_first:
        import gaussian_toolbox  # noqa: F401  (float32 mode at import time)
        from gaussian_toolbox import approximate_conditional, conditional, factor, measure, pdf  # noqa: F401
        from gaussian_toolbox.experimental import truncated_measure  # noqa: F401
    jax.config.update("jax_enable_x64", True)
    cache = os.environ.get("GTMC_JAX_CACHE")
    if cache:
        try:
            jax.config.update("jax_compilation_cache_dir", cache)
            jax.config.update("jax_persistent_cache_min_compile_time_secs", 0.0)
            jax.config.update("jax_persistent_cache_min_entry_size_bytes", 0)
        except Exception:
            pass
    import gaussian_toolbox

    src = os.path.realpath(gaussian_toolbox.__file__)
    if not src.startswith(os.path.realpath(repo) + os.sep):
        raise RuntimeError("gaussian_toolbox imported from %s, not from %s" % (src, repo))


def worker_run(args):
    modname, shard, only = args
    import importlib

    drv = importlib.import_module(modname)
    ctx = Ctx(drv.PROPERTY, shard, only=only)
    t0 = time.time()
    try:
        drv.run_shard(shard, ctx)
        err = None
    except Exception:
        err = traceback.format_exc()
    return dict(
        shard=shard,
        evaluations=ctx.evaluations,
        nontrivial=sorted(ctx.nontrivial),
        samples=ctx.samples,
        violations=ctx.violations,
        n_violations=ctx.n_violations,
        counters=ctx.counters,
        wall=time.time() - t0,
        error=err,
    )
