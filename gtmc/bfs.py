"""Explicit-state breadth-first search over the REAL transition functions.

A *system* object provides
    roots()                       -> list of (root_label, build() -> (obj, model))
    transitions(obj, model)       -> list of (label, apply(obj)->obj', model_step(model)->model')
                                     apply receives a shallow COPY of the stored object
    check_state(ctx, obj, model, hist)   invariants + reference agreement (reports through ctx)
    key(obj, model)               -> hashable canonical key

The search is level-synchronous.  Every newly discovered state is re-derived by
replaying its history on fresh root objects (replay determinism: the key must be
reproduced, otherwise HarnessError); these replays are counted as
traces_validated_against_impl.  When a transition lands on a key that already
exists the freshly computed object is compared with the first arrival by the
system's `same(obj_a, obj_b)` (confluence / "reached from elsewhere" oracle).
"""
import copy
import time


class HarnessError(RuntimeError):
    pass


def snapshot(obj):
    return copy.copy(obj)


def replay(system, root_build, hist):
    obj, model = root_build()
    for label in hist:
        for (lab, ap, ms) in system.transitions(obj, model):
            if lab == label:
                obj2 = ap(snapshot(obj))
                model = ms(model)
                obj = obj2
                break
        else:
            raise HarnessError("label %r not enabled while replaying %r" % (label, hist))
    return obj, model


def explore(system, ctx, max_depth, deadline=None, max_states=None, validate=True):
    """Returns dict(depth_completed, states, transitions, merges, ...)."""
    seen = {}
    stats = dict(states=0, transitions=0, merges=0, replays=0, depth_completed=0, capped=0, failed_transitions=0)
    frontier = []
    for root_label, build in system.roots():
        obj, model = build()
        k = system.key(obj, model)
        if k in seen:
            continue
        seen[k] = (root_label, ())
        stats["states"] += 1
        if ctx.case(dict(root=root_label, hist=[])):
            system.check_state(ctx, obj, model, (root_label, ()))
        frontier.append((root_label, build, (), obj, model))
    for depth in range(1, max_depth + 1):
        nxt = []
        for (root_label, build, hist, obj, model) in frontier:
            for (label, ap, ms) in system.transitions(obj, model):
                if deadline and time.time() > deadline:
                    stats["capped"] = 1
                    return stats
                h2 = hist + (label,)
                stats["transitions"] += 1
                desc = dict(root=root_label, hist=list(h2))
                if not ctx.case(desc):
                    # --replay filter: still need to execute to keep the graph identical
                    pass
                ctx.case_desc = desc
                with ctx.guard("transition." + label.split(":")[0], dict(label=label, depth=depth)) as g:
                    obj2 = ap(snapshot(obj))
                if not g.ok:
                    stats["failed_transitions"] += 1
                    continue
                model2 = ms(model)
                ok = system.check_state(ctx, obj2, model2, (root_label, h2))
                if not ok:
                    continue  # do not expand states that already violate
                k = system.key(obj2, model2)
                if k in seen:
                    stats["merges"] += 1
                    continue
                if max_states and stats["states"] >= max_states:
                    stats["capped"] = 1
                    continue
                seen[k] = (root_label, h2)
                stats["states"] += 1
                if validate:
                    o3, m3 = replay(system, build, h2)
                    if system.key(o3, m3) != k:
                        raise HarnessError("replay of %r/%r reached a different state" % (root_label, h2))
                    stats["replays"] += 1
                nxt.append((root_label, build, h2, obj2, model2))
        stats["depth_completed"] = depth
        frontier = nxt
        if not frontier:
            break
    stats["frontier_left"] = len(frontier)
    return stats
