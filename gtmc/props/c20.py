"""C20 -- truncated one-dimensional Gaussian measures."""
import itertools

import numpy as np
from jax import numpy as jnp

from gaussian_toolbox.experimental import truncated_measure as tmod

from .. import alphabet as al
from .. import objs
from .. import refmodel as rm

J = jnp.asarray

PROPERTY = "C20"
LEVEL = "exploration"
TECHNIQUE = "bounded-exhaustive enumeration (base kind x R x 1-D catalogue x ALL interval pairs of a 9-point cut grid x k in 0..6 x keys) vs composite Gauss-Legendre quadrature with convergence certificate"
RULE = (
    "complete product: base kind {GaussianMeasure (non-unit constant), GaussianPDF} x R x 1-D catalogue x ALL pairs a<b of the cut grid "
    "{-inf, mu-8s, mu-3s, mu-s, mu, mu+.5s, mu+2s, mu+6s, +inf} (per-component limits; plus scalar limits) x keys {'1','x','x**2','x**k' k=0..6}; evaluation inside/outside/on the limits; "
    "additivity over every adjacent triple; normalised variant via get_density() and built directly; oracle: composite Gauss-Legendre (panels of 0.5 sigma, 2 resolutions); "
    "tolerance 1e-8 * int_R |x|^k u. distinct = (shard, interval pair, value index)"
)
ASSUMPTIONS = [
    "quadrature oracle trusted only with its convergence certificate |Q_16 - Q_32| <= 1e-11*scale; uncertified cases are excluded and counted",
    "integration range clipped to mu +- 14 sigma (mass outside < 1e-43)",
    "mean/variance of the normalised density are compared only where the truncated mass fraction is >= 1e-3 (the statement's accuracy is absolute in the far tail); skipped cases counted",
    "1-D catalogue: Lambda in {1, .5, 2, 4}, nu in {-1, 0, 2}, ln_beta in {.7, -1.5, 0} + VERIF_SEED-indexed generic reals",
]
BOUNDS = {"quick": dict(R=[1, 2, 3], kmax=6), "thorough": dict(R=[1, 2, 3, 4], kmax=6)}
BUDGET = {"quick": 600, "thorough": 3600}

GRID = [-np.inf, -8.0, -3.0, -1.0, 0.0, 0.5, 2.0, 6.0, np.inf]  # in units of sigma around mu


def shards(tier, seed):
    out = []
    for kind in ("GaussianMeasure", "GaussianPDF"):
        for R in BOUNDS[tier]["R"]:
            for vi in ([0, 1, 100] if tier == "quick" else [0, 1, 2, 3, 100, 101, 102, 103, 104, 105]):
                out.append(dict(id="C20/%s/R%d/v%d" % (kind, R, vi), kind=kind, R=R, vi=vi, cost=R, facts=dict(kind=kind, R=R)))
    return out


def quad(f, a, b, mu, s, n):
    lo = max(a, mu - 14 * s)
    hi = min(b, mu + 14 * s)
    if not hi > lo:
        return 0.0
    nb = int(np.ceil((hi - lo) / (0.5 * s))) + 1
    breaks = list(np.linspace(lo, hi, nb + 1))
    if lo < 0 < hi:
        breaks = sorted(set(breaks + [0.0]))
    x, w = rm.gauss_legendre_piecewise(breaks, n)
    return float(np.sum(w * f(x)))


def build(kind, R, vi, seed):
    tag = ("c20", kind, R)
    Lam = objs.spd_batch(1, R, vi, seed, tag)
    nu = objs.vec_batch(1, R, vi + 1, seed, tag)
    lnb = objs.lnb_batch(R, vi, seed, tag)
    if kind == "GaussianPDF":
        Sig = 1.0 / Lam
        mu = Sig[:, :, 0] * nu
        o = objs.mk_pdf(kind, Sig, mu)
        lnb = np.array([rm.moment_to_nat(mu[r], Sig[r])[2] for r in range(R)])
    else:
        o = objs.mk_measure(kind, Lam, nu, lnb)
    return o, Lam[:, 0, 0], nu[:, 0], lnb


def run_shard(shard, ctx):
    tier, seed = shard["tier"], shard["seed"]
    kind, R, vi = shard["kind"], shard["R"], shard["vi"]
    kmax = BOUNDS[tier]["kmax"]
    base, lam, nu, lnb = build(kind, R, vi, seed)
    mu = nu / lam
    sg = 1.0 / np.sqrt(lam)
    mass = np.exp(np.array([rm.ln_integral(np.array([[lam[r]]]), np.array([nu[r]]), lnb[r]) for r in range(R)]))

    def u(r):
        return lambda x: np.exp(-0.5 * lam[r] * x * x + nu[r] * x + lnb[r])

    absmom = np.array([[quad(lambda x, k=k, r=r: np.abs(x) ** k * u(r)(x), -np.inf, np.inf, mu[r], sg[r], 32) for k in range(kmax + 1)] for r in range(R)])
    memo = {}

    def ref_int(r, ia, ib, k):
        key = (r, ia, ib, k)
        if key not in memo:
            a = mu[r] + GRID[ia] * sg[r]
            b = mu[r] + GRID[ib] * sg[r]
            q1 = quad(lambda x: x ** k * u(r)(x), a, b, mu[r], sg[r], 16)
            q2 = quad(lambda x: x ** k * u(r)(x), a, b, mu[r], sg[r], 32)
            memo[key] = (q2, abs(q1 - q2) <= 1e-11 * absmom[r, k])
        return memo[key]

    results = {}
    pairs = list(itertools.combinations(range(len(GRID)), 2))
    for (ia, ib) in pairs:
        for limmode in ("percomp", "scalar", "mixed"):
            if limmode == "scalar" and R > 1 and (ia, ib) not in ((0, 4), (3, 6), (4, 8)):
                continue
            if limmode == "scalar" and R == 1:
                continue
            # mixed: limit ARRAYS in which the same side is infinite for some components and finite for others
            if limmode == "mixed" and (R == 1 or ia == 0 or ib == len(GRID) - 1 or (ia + ib) % 3 != 0):
                continue
            if not ctx.case(dict(ia=ia, ib=ib, lim=limmode)):
                continue
            facts = dict(ia=ia, ib=ib, lim=limmode, lower_inf=ia == 0, upper_inf=ib == len(GRID) - 1)
            IA = [ia] * R
            IB = [ib] * R
            if limmode == "mixed":
                IA = [ia if r % 2 == 0 else 0 for r in range(R)]
                IB = [ib if r % 3 != 1 else len(GRID) - 1 for r in range(R)]
                lo = np.array([mu[r] + GRID[IA[r]] * sg[r] for r in range(R)])[:, None]
                hi = np.array([mu[r] + GRID[IB[r]] * sg[r] for r in range(R)])[:, None]
                kw = dict(lower_limit=J(lo), upper_limit=J(hi))
            elif limmode == "percomp":
                lo = (mu + GRID[ia] * sg)[:, None]
                hi = (mu + GRID[ib] * sg)[:, None]
                kw = {}
                if ia > 0:
                    kw["lower_limit"] = J(lo)
                if ib < len(GRID) - 1:
                    kw["upper_limit"] = J(hi)
                elif ia > 0 and (ia + ib) % 2 == 0:
                    kw["upper_limit"] = jnp.inf  # explicit infinity, as the library's own callers pass it
                if not kw:
                    kw = dict(lower_limit=-jnp.inf, upper_limit=jnp.inf)
            else:
                a0 = float(mu[0] + GRID[ia] * sg[0])
                b0 = float(mu[0] + GRID[ib] * sg[0])
                lo = np.full((R, 1), a0)
                hi = np.full((R, 1), b0)
                kw = {}
                if np.isfinite(a0):
                    kw["lower_limit"] = a0
                if np.isfinite(b0):
                    kw["upper_limit"] = b0
            with ctx.guard("truncated.construct", facts) as g:
                t = tmod.TruncatedGaussianMeasure(measure=base, **kw)
            if not g.ok:
                continue
            if (ia, ib) == (3, 6) and limmode == "percomp":
                ctx.sample(dict(shard=shard["id"], Lambda=lam, nu=nu, ln_beta=lnb, lower=lo, upper=hi))

            def refk(k):
                vals, cert = [], True
                for r in range(R):
                    if limmode in ("percomp", "mixed"):
                        v, c = ref_int(r, IA[r], IB[r], k)
                    else:
                        q1 = quad(lambda x: x ** k * u(r)(x), lo[r, 0], hi[r, 0], mu[r], sg[r], 16)
                        v = quad(lambda x: x ** k * u(r)(x), lo[r, 0], hi[r, 0], mu[r], sg[r], 32)
                        c = abs(q1 - v) <= 1e-11 * absmom[r, k]
                    vals.append(v)
                    cert &= bool(c)
                return np.array(vals), cert

            got_by_k = {}
            for keyname, k, call in [("1", 0, lambda: t.integrate("1")), ("x", 1, lambda: t.integrate("x")), ("x**2", 2, lambda: t.integrate("x**2"))] + [("x**k", k, (lambda k=k: t.integrate("x**k", k=k))) for k in range(kmax + 1)]:
                f2 = dict(facts, key=keyname, k=k)
                with ctx.guard("truncated.integrate", f2) as g:
                    got = np.asarray(call())
                if not g.ok:
                    continue
                ref, cert = refk(k)
                if not cert:
                    ctx.count("excluded_uncertified")
                    continue
                want_shape = (R,) if keyname == "1" else (R, 1)
                if got.shape != want_shape:
                    ctx.fail("truncated.integrate", "shape", observed=list(got.shape), expected=list(want_shape), facts=f2)
                    continue
                got = got.reshape(R)
                for r in range(R):
                    if not abs(got[r] - ref[r]) <= 1e-8 * absmom[r, k]:
                        ctx.fail("truncated.integrate", "value", value=float(got[r] - ref[r]), observed=got, expected=ref, facts=f2, msg="tol=%.2e" % (1e-8 * absmom[r, k]))
                        break
                ctx.count("comparisons")
                got_by_k[(keyname, k)] = got
            if limmode == "percomp":
                results[(ia, ib)] = got_by_k
            # ---- evaluation inside / outside / on the limits --------------------
            with ctx.guard("truncated.evaluate", facts):
                for r in range(R):
                    a, b = lo[r, 0], hi[r, 0]
                    xs = []
                    if np.isfinite(a):
                        xs += [a - 0.3 * sg[r], a]
                    if np.isfinite(b):
                        xs += [b, b + 0.3 * sg[r]]
                    fa = a if np.isfinite(a) else mu[r] - 9 * sg[r]
                    fb = b if np.isfinite(b) else mu[r] + 9 * sg[r]
                    xs += [0.5 * (fa + fb), fa + 0.1 * (fb - fa)]
                    xs = np.array(xs)[:, None]
                    val = np.asarray(t(J(xs)))[r]
                    inside = (xs[:, 0] >= a) & (xs[:, 0] <= b)
                    want = np.where(inside, u(r)(xs[:, 0]), 0.0)
                    ctx.close("truncated.evaluate", val, want, scale=float(np.max(want)) if want.size else 1.0, facts=facts)
            # element-wise evaluation: one point per component, placed below / on / inside / on / above the interval
            with ctx.guard("truncated.evaluate_elementwise", facts):
                for pos in ("below", "lower", "inside", "upper", "above"):
                    xe = np.zeros((R, 1))
                    want = np.zeros(R)
                    for r in range(R):
                        a, b = lo[r, 0], hi[r, 0]
                        fa = a if np.isfinite(a) else mu[r] - 9 * sg[r]
                        fb = b if np.isfinite(b) else mu[r] + 9 * sg[r]
                        xv = {"below": fa - 0.4 * sg[r], "lower": fa, "inside": fa + (0.3 + 0.1 * r) * (fb - fa), "upper": fb, "above": fb + 0.4 * sg[r]}[pos]
                        xe[r, 0] = xv
                        want[r] = u(r)(xv) if (xv >= a and xv <= b) else 0.0
                    got_e = np.asarray(t(J(xe), element_wise=True))
                    ctx.close("truncated.evaluate_elementwise", got_e, want, scale=float(np.max(want)) if np.max(want) > 0 else 1.0, facts=dict(facts, pos=pos))
            # ---- normalised variant ---------------------------------------------
            Zt, cert0 = refk(0)
            m1, cert1 = refk(1)
            m2, cert2 = refk(2)
            if cert0 and cert1 and cert2:
                frac = Zt / mass
                for how in ("get_density", "direct"):
                    f3 = dict(facts, how=how)
                    with ctx.guard("truncated_pdf.construct", f3) as g:
                        tp = t.get_density() if how == "get_density" else tmod.TruncatedGaussianPDF(measure=base, **kw)
                    if not g.ok:
                        continue
                    with ctx.guard("truncated_pdf.use", f3):
                        ctx.close("truncated_pdf.integral", np.asarray(tp.integral()), np.ones(R), facts=f3)
                        ctx.close("truncated_pdf.integrate1", np.asarray(tp.integrate("1")), np.ones(R), facts=f3)
                        if np.all(frac >= 1e-3):
                            mean = m1 / Zt
                            var = m2 / Zt - mean ** 2
                            for r in range(R):
                                tolm = 1e-8 * (abs(mu[r]) + sg[r]) / frac[r]
                                gm = float(np.asarray(tp.get_mean())[r, 0])
                                gv = float(np.asarray(tp.get_variance())[r, 0])
                                gx = float(np.asarray(tp.integrate("x"))[r, 0])
                                if not abs(gm - mean[r]) <= tolm:
                                    ctx.fail("truncated_pdf.mean", "value", value=gm - mean[r], facts=f3)
                                if not abs(gx - mean[r]) <= tolm:
                                    ctx.fail("truncated_pdf.integrate_x", "value", value=gx - mean[r], facts=f3)
                                if not abs(gv - var[r]) <= 1e-8 * (mu[r] ** 2 + sg[r] ** 2) / frac[r]:
                                    ctx.fail("truncated_pdf.variance", "value", value=gv - var[r], facts=f3)
                                gs = float(np.asarray(tp.get_std())[r, 0])
                                if var[r] > 1e-12 and not abs(gs - np.sqrt(var[r])) <= 1e-8 * (abs(mu[r]) + sg[r]) / frac[r] / max(np.sqrt(var[r]) / sg[r], 1e-3):
                                    ctx.fail("truncated_pdf.std", "value", value=gs - float(np.sqrt(var[r])), facts=f3)
                                g2 = float(np.asarray(tp.integrate("x**2"))[r, 0])
                                if not abs(g2 - (var[r] + mean[r] ** 2)) <= 1e-8 * (mu[r] ** 2 + sg[r] ** 2) / frac[r]:
                                    ctx.fail("truncated_pdf.integrate_x2", "value", value=g2 - (var[r] + mean[r] ** 2), facts=f3)
                            ctx.count("comparisons", 3)
                            for r in range(R):
                                a, b = lo[r, 0], hi[r, 0]
                                fa = a if np.isfinite(a) else mu[r] - 6 * sg[r]
                                fb = b if np.isfinite(b) else mu[r] + 6 * sg[r]
                                xs = np.array([0.5 * (fa + fb), fa + 0.2 * (fb - fa), fa - 1.0, fb + 1.0])[:, None]
                                val = np.asarray(tp(J(xs)))[r]
                                inside = (xs[:, 0] >= a) & (xs[:, 0] <= b)
                                want = np.where(inside, u(r)(xs[:, 0]) / Zt[r], 0.0)
                                ctx.close("truncated_pdf.evaluate", val, want, scale=float(np.max(want)), tol=1e-8 / min(1.0, float(frac[r])) if frac[r] > 0 else 1e-8, facts=f3)
                            for pos in ("below", "inside", "above"):
                                xe = np.zeros((R, 1))
                                want = np.zeros(R)
                                for r in range(R):
                                    a, b = lo[r, 0], hi[r, 0]
                                    fa = a if np.isfinite(a) else mu[r] - 6 * sg[r]
                                    fb = b if np.isfinite(b) else mu[r] + 6 * sg[r]
                                    xv = {"below": fa - 0.4 * sg[r], "inside": fa + (0.3 + 0.1 * r) * (fb - fa), "above": fb + 0.4 * sg[r]}[pos]
                                    xe[r, 0] = xv
                                    want[r] = u(r)(xv) / Zt[r] if (xv >= a and xv <= b) else 0.0
                                ctx.close("truncated_pdf.evaluate_elementwise", np.asarray(tp(J(xe), element_wise=True)), want, scale=float(np.max(want)) if np.max(want) > 0 else 1.0, tol=1e-8 / float(min(1.0, np.min(frac))), facts=dict(f3, pos=pos))
                        else:
                            ctx.count("skipped_far_tail_mean_variance")
    # ---- additivity over adjacent triples -----------------------------------
    for (ia, ic, ib) in itertools.combinations(range(len(GRID)), 3):
        if not ctx.case(dict(additivity=[ia, ic, ib])):
            continue
        for kk in [("1", 0), ("x", 1), ("x**2", 2)] + [("x**k", k) for k in range(kmax + 1)]:
            try:
                left, right, whole = results[(ia, ic)][kk], results[(ic, ib)][kk], results[(ia, ib)][kk]
            except KeyError:
                continue
            k = kk[1]
            for r in range(R):
                if not abs(left[r] + right[r] - whole[r]) <= 3e-8 * absmom[r, k]:
                    ctx.fail("truncated.additivity", "value", value=float(left[r] + right[r] - whole[r]), facts=dict(ia=ia, ic=ic, ib=ib, key=kk[0], k=k))
                    break
            ctx.count("comparisons")
    # (-inf,c] + [c,inf) = untruncated closed form
    for ic in range(1, len(GRID) - 1):
        for kk in [("1", 0), ("x", 1), ("x**2", 2), ("x**k", 3), ("x**k", 4)]:
            try:
                tot = results[(0, ic)][kk] + results[(ic, len(GRID) - 1)][kk]
            except KeyError:
                continue
            k = kk[1]
            for r in range(R):
                mom = rm.raw_moments(np.array([mu[r]]), np.array([[sg[r] ** 2]]), 4)[k]
                want = mass[r] * float(np.asarray(mom).reshape(-1)[0])
                if not abs(tot[r] - want) <= 3e-8 * absmom[r, k]:
                    ctx.fail("truncated.additivity_total", "value", value=float(tot[r] - want), facts=dict(ic=ic, key=kk[0], k=k))
                    break
            ctx.count("comparisons")
