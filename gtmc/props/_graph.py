"""The transition system shared by C04 / C02 / C12 / C18: library objects as states,
public methods as transitions, a NumPy model stepped alongside (conformance on
every transition), cache invariants in every state."""
import numpy as np
from jax import numpy as jnp

from gaussian_toolbox import approximate_conditional as ac
from gaussian_toolbox import conditional, factor, measure, pdf

from .. import alphabet as al
from .. import objs
from .. import refmodel as rm

J = jnp.asarray

FK_FULL = ["ConjugateFactor", "OneRankFactor", "LinearFactor", "ConstantFactor", "GaussianMeasure", "GaussianMeasure.warm"]
FK_REDUCED = ["OneRankFactor", "LinearFactor"]
Q_FULL = ["integrate1", "integrate_x", "integrate_xx", "log_integral_light", "evaluate"]
Q_REDUCED = ["integrate_x", "log_integral_light"]


# ---------------------------------------------------------------------------
# models
# ---------------------------------------------------------------------------
def m_measure(cls, Lam, nu, lnb):
    return dict(t="measure", cls=cls, Lam=np.asarray(Lam, float), nu=np.asarray(nu, float), lnb=np.asarray(lnb, float))


def m_cond(cls, M, b, Sy):
    return dict(t="cond", cls=cls, M=np.asarray(M, float), b=np.asarray(b, float), Sy=np.asarray(Sy, float))


def m_factor(cls, Lam, nu, lnb):
    return dict(t="factor", cls=cls, Lam=np.asarray(Lam, float), nu=np.asarray(nu, float), lnb=np.asarray(lnb, float))


def m_pdf_from_moments(cls, mu, Sig):
    ps = [rm.moment_to_nat(mu[r], Sig[r]) for r in range(len(mu))]
    return m_measure(cls, [p[0] for p in ps], [p[1] for p in ps], [p[2] for p in ps])


def model_moments(m):
    out = [rm.nat_to_moment(m["Lam"][r], m["nu"][r]) for r in range(len(m["Lam"]))]
    return np.array([o[0] for o in out]), np.array([o[1] for o in out])


def adopt_pdf(obj):
    """Opaque transition: the model adopts what the object exposes (mu, Sigma)."""
    return m_pdf_from_moments(type(obj).__name__, np.asarray(obj.mu), np.asarray(obj.Sigma))


def adopt_cond(obj):
    return m_cond(type(obj).__name__, np.asarray(obj.M), np.asarray(obj.b), np.asarray(obj.Sigma))


def is_pdf(cls):
    return "PDF" in cls and "Conditional" not in cls


class GaussSystem:
    """See module docstring.  One instance per shard."""

    def __init__(self, D, seed, vi, level, rcap, root_spec, checks=("model", "caches"), ctx=None):
        self.D, self.seed, self.vi, self.level, self.rcap = D, seed, vi, level, rcap
        self.root_spec = root_spec
        self.checks = checks
        self.fks = FK_FULL if level == "full" else FK_REDUCED
        self.queries = Q_FULL if level == "full" else Q_REDUCED
        self.ufs = (False, True) if level == "full" else (True,)
        self.xq = al.points(3, D, salt=1)

    # -- operands ------------------------------------------------------------
    def operand_factor(self, fk, R2):
        kind = fk.split(".")[0]
        f, par = objs.mk_factor(kind, self.D, R2, self.vi, self.seed, tag=("graphF", fk))
        if fk.endswith(".warm"):
            f.integrate("x")
        return f, par

    def operand_pdf(self, D, R, salt="p"):
        Sig = objs.spd_batch(D, R, self.vi + 1, self.seed, ("graphP", salt))
        mu = objs.vec_batch(D, R, self.vi + 1, self.seed, ("graphP", salt))
        return objs.mk_pdf("GaussianPDF", Sig, mu), mu, Sig

    # -- roots ---------------------------------------------------------------
    def roots(self):
        spec = self.root_spec
        return [(spec["label"], lambda: build_root(self, spec))]

    # -- transitions -----------------------------------------------------------
    def transitions(self, obj, model):
        t = model["t"]
        if t == "measure":
            return self._tr_measure(obj, model)
        if t == "cond":
            return self._tr_cond(obj, model)
        if t == "factor":
            return self._tr_factor(obj, model)
        if t == "approx":
            return self._tr_approx(obj, model)
        raise KeyError(t)

    def _tr_measure(self, obj, m):
        D, R = self.D, len(m["Lam"])
        D = m["Lam"].shape[1]
        cls = m["cls"]
        out = []
        if D == self.D:
            for fk in self.fks:
                for R2 in (1, 2):
                    if R * R2 > self.rcap:
                        continue
                    for uf in self.ufs:
                        out.append(("mul:%s:%d:%d" % (fk, R2, uf), (lambda o, fk=fk, R2=R2, uf=uf: o.multiply(self.operand_factor(fk, R2)[0], update_full=uf)), (lambda mm, fk=fk, R2=R2: self._model_mul(mm, fk, R2))))
                for R2 in sorted({R, 1} | ({2} if R == 1 and 2 <= self.rcap else set())):
                    for uf in self.ufs:
                        out.append(("had:%s:%d:%d" % (fk, R2, uf), (lambda o, fk=fk, R2=R2, uf=uf: o.hadamard(self.operand_factor(fk, R2)[0], update_full=uf)), (lambda mm, fk=fk, R2=R2: self._model_had(mm, fk, R2))))
        if R > 1:
            out.append(("product", lambda o: o.product(), lambda mm: m_measure("GaussianDiagMeasure" if "Diag" in mm["cls"] else "GaussianMeasure", mm["Lam"].sum(0, keepdims=True), mm["nu"].sum(0, keepdims=True), mm["lnb"].sum(0, keepdims=True))))
        idxs = [[0]] + ([[R - 1, 0]] if R >= 2 else []) + ([[0, 0]] if R == 1 and self.rcap >= 2 else []) + ([[-1]] if R >= 2 else [])
        for idx in idxs:
            out.append(("slice:%s" % ",".join(map(str, idx)), (lambda o, idx=idx: o.slice(jnp.array(idx))), (lambda mm, idx=idx: m_measure(mm["cls"], mm["Lam"][idx], mm["nu"][idx], mm["lnb"][idx]))))
        if not is_pdf(cls):
            out.append(("normalize", _normalize, lambda mm: m_measure(mm["cls"], mm["Lam"], mm["nu"], [-rm.lnZ(mm["Lam"][r], mm["nu"][r]) for r in range(len(mm["Lam"]))])))
            out.append(("get_density", lambda o: o.get_density(), lambda mm: m_measure("GaussianPDF", mm["Lam"], mm["nu"], [-rm.lnZ(mm["Lam"][r], mm["nu"][r]) for r in range(len(mm["Lam"]))])))
        for q in self.queries:
            out.append(("q:" + q, (lambda o, q=q: self._query(o, q)), lambda mm: mm))
        if is_pdf(cls):
            if D >= 2:
                for dims in ([0], [D - 1, 0]):
                    out.append(("marg:%s" % ",".join(map(str, dims)), (lambda o, dims=dims: o.get_marginal(jnp.array(dims))), (lambda mm, dims=dims: self._model_marg(mm, dims))))
                out.append(("cond:0", lambda o: o.condition_on(jnp.array([0])), lambda mm: self._model_condon(mm, [0])))
            if D == self.D:
                out.append(("update:0", lambda o: self._update(o), lambda mm: self._model_update(mm)))
                for Ds in sorted({1, D}):
                    out.append(("linsum:%d" % Ds, (lambda o, Ds=Ds: o.get_density_of_linear_sum(J(self._W(Ds)[None]), J(self._wb(Ds)[None]))), (lambda mm, Ds=Ds: self._model_linsum(mm, Ds))))
        return out

    def _W(self, Ds):
        return al.int_matrix(Ds, self.D, salt=7)

    def _wb(self, Ds):
        return al.int_vector(Ds, salt=3)

    def _query(self, o, q):
        if q == "integrate1":
            o.integrate("1")
        elif q == "integrate_x":
            o.integrate("x")
        elif q == "integrate_xx":
            o.integrate("xx'")
        elif q == "log_integral_light":
            o.log_integral_light()
        elif q == "evaluate":
            o.evaluate(J(al.points(3, o.D, salt=1)))
        return o

    def _update(self, o):
        d, _, _ = self.operand_pdf(self.D, 1, salt="upd")
        if "Diag" in type(o).__name__:
            Sig = objs.spd_batch(self.D, 1, self.vi + 1, self.seed, ("graphP", "upd"), diag=True)
            mu = objs.vec_batch(self.D, 1, self.vi + 1, self.seed, ("graphP", "upd"))
            d = objs.mk_pdf("GaussianDiagPDF", Sig, mu)
        o.update(jnp.array([0]), d)
        return o

    def _model_update(self, mm):
        diag = "Diag" in mm["cls"]
        Sig = objs.spd_batch(self.D, 1, self.vi + 1, self.seed, ("graphP", "upd"), diag=diag)
        mu = objs.vec_batch(self.D, 1, self.vi + 1, self.seed, ("graphP", "upd"))
        L, n, b = rm.moment_to_nat(mu[0], Sig[0])
        Lam, nu, lnb = mm["Lam"].copy(), mm["nu"].copy(), mm["lnb"].copy()
        Lam[0], nu[0], lnb[0] = L, n, b
        return m_measure(mm["cls"], Lam, nu, lnb)

    def _model_mul(self, mm, fk, R2):
        _, (L, n, b) = self.operand_factor(fk, R2)
        R = len(mm["Lam"])
        D = self.D
        return m_measure("GaussianMeasure", (mm["Lam"][:, None] + L[None]).reshape(R * R2, D, D), (mm["nu"][:, None] + n[None]).reshape(R * R2, D), (mm["lnb"][:, None] + b[None]).reshape(R * R2))

    def _model_had(self, mm, fk, R2):
        _, (L, n, b) = self.operand_factor(fk, R2)
        R = max(len(mm["Lam"]), R2)
        bc = lambda a, shape: np.broadcast_to(a, shape).copy()
        D = self.D
        return m_measure("GaussianMeasure", bc(mm["Lam"], (R, D, D)) + bc(L, (R, D, D)), bc(mm["nu"], (R, D)) + bc(n, (R, D)), bc(mm["lnb"], (R,)) + bc(b, (R,)))

    def _model_marg(self, mm, dims):
        mu, Sig = model_moments(mm)
        return m_pdf_from_moments(mm["cls"], mu[:, dims], np.array([S[np.ix_(dims, dims)] for S in Sig]))

    def _model_condon(self, mm, b):
        mu, Sig = model_moments(mm)
        D = mu.shape[1]
        a = [d for d in range(D) if d not in b]
        ps = [rm.conditional(mu[r], Sig[r], a, b) for r in range(len(mu))]
        return m_cond("ConditionalGaussianPDF", [p[0] for p in ps], [p[1] for p in ps], [p[2] for p in ps])

    def _model_linsum(self, mm, Ds):
        mu, Sig = model_moments(mm)
        W, wb = self._W(Ds), self._wb(Ds)
        ps = [rm.pushforward(mu[r], Sig[r], W, wb) for r in range(len(mu))]
        return m_pdf_from_moments("GaussianPDF", np.array([p[0] for p in ps]), np.array([p[1] for p in ps]))

    # -- conditionals ----------------------------------------------------------
    def _cond_kw(self, obj, m):
        return m.get("kw") or {}

    def _tr_cond(self, obj, m):
        R, Dy, Dx = m["M"].shape
        out = []
        N = 2
        x = al.points(N, Dx, salt=2)
        if R * N <= max(self.rcap, 4):
            out.append(("cx", lambda o: o.condition_on_x(J(x)), lambda mm: m_pdf_from_moments("GaussianPDF", np.array([mm["M"][r] @ x[n] + mm["b"][r] for r in range(R) for n in range(N)]), np.array([mm["Sy"][r] for r in range(R) for n in range(N)]))))
        for Rp in (1, 2):
            if (R == 1 or Rp == 1) and R * Rp <= self.rcap:
                for op in ("joint", "margT", "condT"):
                    out.append(("%s:%d" % (op, Rp), (lambda o, op=op, Rp=Rp: self._affine(o, op, Rp, Dx)), (lambda mm, op=op, Rp=Rp: self._model_affine(mm, op, Rp))))
        # the same with a DIAGONAL-class prior (the result must not inherit the prior's shortcuts)
        if self.level == "full":
            for op in ("joint", "margT"):
                out.append(("%s:1d" % op, (lambda o, op=op: self._affine(o, op, 1, Dx, diag=True)), (lambda mm, op=op: self._model_affine(mm, op, 1, diag=True))))
        if Dx == Dy:
            Ny = 2 if R == 1 else R
            y = al.points(Ny, Dy, salt=4)
            out.append(("set_y", lambda o: o.set_y(J(y)), lambda mm: self._model_sety(mm, y)))
        idxs = [[0]] + ([[R - 1, 0], [-1]] if R >= 2 else [])
        for idx in idxs:
            out.append(("slice:%s" % ",".join(map(str, idx)), (lambda o, idx=idx: o.slice(jnp.array(idx))), (lambda mm, idx=idx: m_cond(_slice_cls(mm["cls"]), mm["M"][idx], mm["b"][idx], mm["Sy"][idx]))))
        Snew = objs.spd_batch(Dy, R, self.vi + 2, self.seed, ("graphUS",), diag="Diag" in m["cls"])
        out.append(("update_Sigma", lambda o: _update_Sigma(o, Snew), lambda mm: m_cond(mm["cls"], mm["M"], mm["b"], Snew)))
        return out

    def operand_diag_pdf(self, D):
        Sig = objs.spd_batch(D, 1, self.vi + 1, self.seed, ("graphPd", D), diag=True)
        mu = objs.vec_batch(D, 1, self.vi + 1, self.seed, ("graphPd", D))
        return objs.mk_pdf("GaussianDiagPDF", Sig, mu), mu, Sig

    def _affine(self, o, op, Rp, Dx, diag=False):
        p, _, _ = self.operand_pdf(Dx, Rp, salt="aff%d" % Dx) if not diag else self.operand_diag_pdf(Dx)
        return {"joint": o.affine_joint_transformation, "margT": o.affine_marginal_transformation, "condT": o.affine_conditional_transformation}[op](p)

    def _model_affine(self, mm, op, Rp, diag=False):
        R, Dy, Dx = mm["M"].shape
        _, mu, Sig = self.operand_pdf(Dx, Rp, salt="aff%d" % Dx) if not diag else self.operand_diag_pdf(Dx)
        res = []
        for rc in range(R):
            for rx in range(Rp):
                if op == "joint":
                    res.append(rm.joint(mu[rx], Sig[rx], mm["M"][rc], mm["b"][rc], mm["Sy"][rc]))
                elif op == "margT":
                    m_, S_ = rm.pushforward(mu[rx], Sig[rx], mm["M"][rc], mm["b"][rc])
                    res.append((m_, S_ + mm["Sy"][rc]))
                else:
                    res.append(rm.posterior(mu[rx], Sig[rx], mm["M"][rc], mm["b"][rc], mm["Sy"][rc]))
        if op == "condT":
            return m_cond("ConditionalGaussianPDF", [r[0] for r in res], [r[1] for r in res], [r[2] for r in res])
        return m_pdf_from_moments("GaussianPDF", np.array([r[0] for r in res]), np.array([r[1] for r in res]))

    def _model_sety(self, mm, y):
        R = len(mm["M"])
        Lam, nu, lnb = [], [], []
        for n in range(len(y)):
            r = 0 if R == 1 else n
            Li = np.linalg.inv(mm["Sy"][r])
            Lam.append(mm["M"][r].T @ Li @ mm["M"][r])
            nu.append(mm["M"][r].T @ Li @ (y[n] - mm["b"][r]))
            lnb.append(rm.gauss_logpdf(y[n], mm["b"][r], mm["Sy"][r])[0])
        return m_factor("ConjugateFactor", Lam, nu, lnb)

    # -- factors -----------------------------------------------------------------
    def _tr_factor(self, obj, m):
        R, D = m["nu"].shape
        out = []
        if R > 1:
            out.append(("product", lambda o: o.product(), lambda mm: m_factor("ConjugateFactor", mm["Lam"].sum(0, keepdims=True), mm["nu"].sum(0, keepdims=True), mm["lnb"].sum(0, keepdims=True))))
        idxs = [[0]] + ([[R - 1, 0], [-1]] if R >= 2 else [])
        for idx in idxs:
            out.append(("slice:%s" % ",".join(map(str, idx)), (lambda o, idx=idx: o.slice(jnp.array(idx))), (lambda mm, idx=idx: m_factor(mm["cls"], mm["Lam"][idx], mm["nu"][idx], mm["lnb"][idx]))))
        for R1 in (1, 2):
            if R * R1 > self.rcap:
                continue
            for uf in self.ufs:
                for warm in (0, 1):
                    out.append(("into:%d:%d:%d" % (R1, uf, warm), (lambda o, R1=R1, uf=uf, warm=warm: self._into(o, R1, uf, warm, D)), (lambda mm, R1=R1: self._model_into(mm, R1))))
        return out

    def _prior(self, R1, D):
        Lam = objs.spd_batch(D, R1, self.vi, self.seed, ("graphPrior", D))
        nu = objs.vec_batch(D, R1, self.vi, self.seed, ("graphPrior", D))
        lnb = objs.lnb_batch(R1, self.vi, self.seed, ("graphPrior", D))
        return Lam, nu, lnb

    def _into(self, f, R1, uf, warm, D):
        Lam, nu, lnb = self._prior(R1, D)
        u = objs.mk_measure("GaussianMeasure", Lam, nu, lnb)
        if warm:
            u.integrate("x")
        return u.multiply(f, update_full=uf)

    def _model_into(self, mm, R1):
        R2, D = mm["nu"].shape
        Lam, nu, lnb = self._prior(R1, D)
        return m_measure("GaussianMeasure", (Lam[:, None] + mm["Lam"][None]).reshape(R1 * R2, D, D), (nu[:, None] + mm["nu"][None]).reshape(R1 * R2, D), (lnb[:, None] + mm["lnb"][None]).reshape(R1 * R2))

    # -- approximate conditionals (opaque transitions: the model adopts) ---------
    def _tr_approx(self, obj, m):
        Dx = m["Dx"]
        out = []
        x = al.points(2, Dx, salt=2)
        holder = {}

        def adopt_p(label):
            def ap(o):
                res = {"cx": lambda: o.condition_on_x(J(x)), "joint": lambda: o.affine_joint_transformation(self.operand_pdf(Dx, int(label[-1]), "aff%d" % Dx)[0]), "margT": lambda: o.affine_marginal_transformation(self.operand_pdf(Dx, int(label[-1]), "aff%d" % Dx)[0]), "condT": lambda: o.affine_conditional_transformation(self.operand_pdf(Dx, int(label[-1]), "aff%d" % Dx)[0])}[label.split(":")[0]]()
                holder[label] = res
                return res

            def ms(mm):
                res = holder[label]
                return adopt_cond(res) if label.startswith("condT") else adopt_pdf(res)

            return (label, ap, ms)

        out.append(adopt_p("cx"))
        for Rp in (1, 2):
            for op in ("joint", "margT", "condT"):
                out.append(adopt_p("%s:%d" % (op, Rp)))
        return out

    # -- keys and invariants -----------------------------------------------------
    def key(self, obj, model):
        t = model["t"]
        if t == "approx":
            return ("approx", model["cls"])
        parts = []
        for k in ("Lam", "nu", "lnb", "M", "b", "Sy"):
            if k in model:
                a = np.asarray(model[k], float)
                sc = max(1.0, float(np.max(np.abs(a))) if a.size else 1.0)
                parts.append((k, a.shape, np.round(a / sc, 7).tobytes(), round(np.log10(sc), 6)))
        return (t, model["cls"], objs.cache_mask(obj), tuple(parts))

    def check_state(self, ctx, obj, model, hist):
        ok = True
        facts = dict(root=hist[0], depth=len(hist[1]), last=(hist[1][-1] if hist[1] else "root"), cls=type(obj).__name__, mask=objs.cache_mask(obj))
        last = facts["last"].split(":")[0]
        facts["last_op"] = last
        for k in ("Dy", "Da", "Dk", "link"):
            if k in self.root_spec:
                facts[k] = self.root_spec[k]
        t = model["t"]
        if t == "approx":
            return True
        # the properties are stated for condition numbers <= 1e4: states outside that domain (e.g. three linear
        # sums in a row followed by a rank-one product) are neither judged nor expanded, and are counted
        mats = model["Lam"] if t == "measure" else (model["Sy"] if t == "cond" else None)
        if mats is not None and mats.size:
            with np.errstate(all="ignore"):
                c = max(float(np.linalg.cond(m)) for m in mats)
            if not (c <= 1e4):
                ctx.count("out_of_domain_states")
                return False
        if "model" in self.checks:
            ok &= self._check_model(ctx, obj, model, facts)
        if "caches" in self.checks:
            ok &= self._check_caches(ctx, obj, model, facts)
        if "mass" in self.checks and t == "measure":
            ok &= self._check_mass(ctx, obj, model, facts)
        return ok

    def _check_model(self, ctx, obj, model, facts):
        ok = True
        t = model["t"]
        if t in ("measure", "factor"):
            for a, k in (("Lambda", "Lam"), ("nu", "nu"), ("ln_beta", "lnb")):
                ok &= ctx.close("graph.model." + a, np.asarray(getattr(obj, a)), model[k], facts=facts, symptom="model_mismatch")
            R = model["nu"].shape[0]
            if getattr(obj, "R", R) != R:
                ctx.fail("graph.model.R", "malformed_batch", observed=int(obj.R), expected=int(R), facts=facts)
                ok = False
        elif t == "cond":
            for a, k in (("M", "M"), ("b", "b"), ("Sigma", "Sy")):
                if getattr(obj, a, None) is None:
                    continue  # identity-mean classes do not expose M, b
                ok &= ctx.close("graph.model." + a, np.asarray(getattr(obj, a)), model[k], facts=facts, symptom="model_mismatch")
        return ok

    def _check_caches(self, ctx, obj, model, facts):
        ok = True
        t = model["t"]
        g = lambda a: (None if getattr(obj, a, None) is None else np.asarray(getattr(obj, a)))
        if t == "measure":
            Lam, nu, Sig = g("Lambda"), g("nu"), g("Sigma")
            D = Lam.shape[-1]
            if Sig is not None:
                R = max(len(Sig), len(Lam))
                if Sig.shape != Lam.shape:
                    ctx.fail("graph.cache.Sigma", "malformed_batch", observed=list(Sig.shape), expected=list(Lam.shape), facts=facts)
                    return False
                ok &= ctx.close("graph.cache.SigmaLambda", np.einsum("rij,rjk->rik", Sig, Lam), np.tile(np.eye(D)[None], (len(Sig), 1, 1)), facts=facts, symptom="incoherent")
                if g("ln_det_Sigma") is not None:
                    ok &= ctx.close("graph.cache.ln_det_Sigma", g("ln_det_Sigma"), np.linalg.slogdet(Sig)[1], facts=facts, symptom="incoherent")
                if g("mu") is not None:
                    ok &= ctx.close("graph.cache.mu", g("mu"), np.einsum("rij,rj->ri", Sig, np.broadcast_to(nu, (len(Sig), D))), facts=facts, symptom="incoherent")
                if g("lnZ") is not None:
                    ref = np.array([rm.lnZ(Lam[r], nu[r]) for r in range(len(Lam))]) if len(nu) == len(Lam) else None
                    if ref is not None:
                        ok &= ctx.close("graph.cache.lnZ", g("lnZ"), ref, facts=facts, symptom="incoherent")
            if g("ln_det_Lambda") is not None:
                ok &= ctx.close("graph.cache.ln_det_Lambda", g("ln_det_Lambda"), np.linalg.slogdet(Lam)[1], facts=facts, symptom="incoherent")
            if is_pdf(type(obj).__name__) and g("lnZ") is not None:
                ok &= ctx.close("graph.cache.ln_beta_is_minus_lnZ", g("ln_beta"), -g("lnZ"), facts=facts, symptom="incoherent")
        elif t == "cond":
            Sig, Lam = g("Sigma"), g("Lambda")
            D = Sig.shape[-1]
            ok &= ctx.close("graph.cache.cond.SigmaLambda", np.einsum("rij,rjk->rik", Sig, Lam), np.tile(np.eye(D)[None], (len(Sig), 1, 1)), facts=facts, symptom="incoherent")
            ok &= ctx.close("graph.cache.cond.ln_det_Sigma", g("ln_det_Sigma"), np.linalg.slogdet(Sig)[1], facts=facts, symptom="incoherent")
        return ok

    def _check_mass(self, ctx, obj, model, facts):
        """C02: the five mass queries equal the integral of the function the object
        evaluates to (quadratic identification), densities integrate to one."""
        import copy

        ok = True
        o = copy.copy(obj)
        D = model["Lam"].shape[1]
        pts, _ = rm.lattice(D)
        with ctx.guard("graph.mass.evaluate", facts) as gd:
            vals = np.asarray(o.evaluate_ln(J(pts)))
        if not gd.ok:
            return False
        R = vals.shape[0]
        ident = np.zeros(R)
        lscale = float(max(1.0, np.max(np.abs(vals)))) if np.all(np.isfinite(vals)) else 1.0
        for r in range(R):
            L, n, c, resid = rm.identify_quadratic(vals[r], D)
            if resid > 1e-7 * max(1.0, float(np.max(np.abs(vals[r])))):
                ctx.fail("graph.mass.not_quadratic", "value", value=resid, facts=facts)
                return False
            if np.min(np.linalg.eigvalsh(L)) <= 0:
                ctx.fail("graph.mass.not_integrable", "value", facts=facts)
                return False
            ident[r] = rm.ln_integral(L, n, c)
            if rm.identification_noise(vals[r], L, n) > 1e-10 * lscale:
                # mode far from the origin: the origin lattice cannot resolve the mass to 1e-8*lscale; probe around the mode
                with ctx.guard("graph.mass.evaluate", facts) as gd:
                    ident[r], resid2 = rm.ln_integral_recentred(lambda P, r=r: np.asarray(o.evaluate_ln(J(P)))[r], D, L, n)
                if not gd.ok:
                    return False
                ctx.count("mass_oracle_recentred")
        for name, fn, islog in (("log_integral_light", lambda q: q.log_integral_light(), True), ("log_integral", lambda q: q.log_integral(), True), ("integral_light", lambda q: q.integral_light(), False), ("integral", lambda q: q.integral(), False), ("integrate1", lambda q: q.integrate("1"), False)):
            q = copy.copy(obj)
            with ctx.guard("graph.mass." + name, facts) as gd:
                got = np.asarray(fn(q))
            if not gd.ok:
                ok = False
                continue
            # natural scale: the log-mass is a difference of terms of the size of the probed log-values (nu'Sigma nu / 2
            # against the log-constant), so 1e-8 is taken relative to that size -- for the integral itself in log space too
            if islog:
                ok &= ctx.close("graph.mass." + name, got, ident, scale=lscale, facts=facts, symptom="mass")
            else:
                with np.errstate(divide="ignore", invalid="ignore"):
                    lg = np.log(got)
                rep = (ident > -700.0) & (ident < 700.0)  # where exp() neither underflows nor overflows
                if got.shape == ident.shape and not np.all(rep):
                    lg = np.where(rep, lg, ident)
                ok &= ctx.close("graph.mass." + name, lg, ident, scale=lscale, facts=facts, symptom="mass")
        if is_pdf(type(obj).__name__):
            ok &= ctx.close("graph.mass.density_integrates_to_one", ident, np.zeros(R), scale=lscale, facts=facts, symptom="mass")
        return ok


def _slice_cls(cls):
    # slicing an identity-diagonal conditional yields the identity class (same function)
    return cls


def _normalize(o):
    o.normalize()
    return o


def _update_Sigma(o, Snew):
    o.update_Sigma(J(Snew))
    return o


# ---------------------------------------------------------------------------
# roots
# ---------------------------------------------------------------------------
def root_specs(D, tier):
    specs = []
    for kind in ("GaussianMeasure", "GaussianDiagMeasure", "GaussianPDF", "GaussianDiagPDF"):
        for R in (1, 2):
            specs.append(dict(label="%s/R%d" % (kind, R), t="measure", kind=kind, R=R))
    for kind in objs.COND_KINDS:
        for (Dx, Dy) in ((D, D), (D, 1), (1, D)) if D > 1 else ((1, 1),):
            if kind.startswith("identity") and Dx != Dy:
                continue
            for R in (1, 2):
                if kind == "nncontrol" and R == 2:
                    continue
                specs.append(dict(label="cond.%s/Dx%d.Dy%d/R%d" % (kind, Dx, Dy, R), t="cond", kind=kind, Dx=Dx, Dy=Dy, R=R))
    # measures and densities built through the other constructor argument combinations (covariance given without / with
    # only one of its log-determinants)
    for kind in ("GaussianMeasure", "GaussianDiagMeasure"):
        for mode in ("Lambda+Sigma", "Lambda+Sigma+ldL"):
            specs.append(dict(label="%s/R2/ctor.%s" % (kind, mode), t="measure", kind=kind, R=2, mode=mode))
    for kind in ("GaussianPDF", "GaussianDiagPDF"):
        specs.append(dict(label="%s/R2/ctor.Sigma+Lambda" % kind, t="measure", kind=kind, R=2, mode="Sigma+Lambda"))
    # the same conditionals built through the other constructor argument combinations
    for kind in ("full", "diag", "identity", "identity_diag"):
        for ctor in ("Lambda", "SigmaLambda", "all"):
            specs.append(dict(label="cond.%s/Dx%d.Dy%d/R2/ctor.%s" % (kind, D, D, ctor), t="cond", kind=kind, Dx=D, Dy=D, R=2, ctor=ctor))
    for fk in ("ConjugateFactor", "OneRankFactor", "LinearFactor", "ConstantFactor"):
        specs.append(dict(label="factor.%s/R2" % fk, t="factor", kind=fk, R=2))
    for name in ("LRBF", "LSEM"):
        specs.append(dict(label="approx.%s" % name, t="approx", kind=name, Dx=D, Dy=2, Dk=2))
    for link in ("Exp", "CoshM1", "Heaviside", "ReLU"):
        for (Dy, Da, Dk) in ((2, 2, 1), (2, 2, 2), (2, 3, 2)):
            specs.append(dict(label="approx.Hetero%s/Dy%d.Da%d.Dk%d" % (link, Dy, Da, Dk), t="approx", kind="Hetero" + link, link=link, Dx=D, Dy=Dy, Da=Da, Dk=Dk))
    return specs


def build_approx(spec, seed, vi):
    kind, Dx, Dy = spec["kind"], spec["Dx"], spec["Dy"]
    tag = ("approx", kind, Dx, Dy)
    Sy = objs.spd_batch(Dy, 1, vi, seed, tag)
    b = objs.vecn_batch(Dy, 1, vi, seed, tag)
    if kind in ("LRBF", "LSEM"):
        Dk = spec["Dk"]
        M = objs.mat_batch(Dy, Dx + Dk, 1, vi, seed, tag) * 0.5
        if kind == "LRBF":
            mu = np.array([al.int_vector(Dx, salt=k) for k in range(Dk)]) * 0.5
            ls = np.array([[0.5 + 0.5 * ((k + d) % 3) for d in range(Dx)] for k in range(Dk)])
            return ac.LRBFGaussianConditional(M=J(M), b=J(b), mu=J(mu), length_scale=J(ls), Sigma=J(Sy))
        W = np.array([np.concatenate([[0.3 * (k + 1) * (-1) ** k], al.int_vector(Dx, salt=k + 1) * 0.4]) for k in range(Dk)])
        return ac.LSEMGaussianConditional(M=J(M), b=J(b), W=J(W), Sigma=J(Sy))
    Da, Dk = spec["Da"], spec["Dk"]
    M = objs.mat_batch(Dy, Dx, 1, vi, seed, tag) * 0.5
    A = al.int_matrix(Dy, Da, salt=1)[None] * 0.5
    W = np.array([np.concatenate([[0.3 * (-1) ** k], al.int_vector(Dx, salt=k + 2) * 0.3]) for k in range(Dk)])
    cls = {"HeteroExp": ac.HeteroscedasticExpConditional, "HeteroCoshM1": ac.HeteroscedasticCoshM1Conditional, "HeteroHeaviside": ac.HeteroscedasticHeavisideConditional, "HeteroReLU": ac.HeteroscedasticReLUConditional}[kind]
    return cls(M=J(M), b=J(b), A=J(A), W=J(W))


def build_root(sys_, spec):
    D, seed, vi = sys_.D, sys_.seed, sys_.vi
    t = spec["t"]
    if t == "measure":
        kind, R = spec["kind"], spec["R"]
        diag = "Diag" in kind
        tag = ("root", kind, D, R)
        if "PDF" in kind:
            Sig = objs.spd_batch(D, R, vi, seed, tag, diag=diag)
            mu = objs.vec_batch(D, R, vi, seed, tag)
            return objs.mk_pdf(kind, Sig, mu, mode=spec.get("mode", "Sigma")), m_pdf_from_moments(kind, mu, Sig)
        Lam = objs.spd_batch(D, R, vi, seed, tag, diag=diag)
        nu = objs.vec_batch(D, R, vi, seed, tag)
        lnb = objs.lnb_batch(R, vi, seed, tag)
        return objs.mk_measure(kind, Lam, nu, lnb, mode=spec.get("mode", "Lambda")), m_measure(kind, Lam, nu, lnb)
    if t == "cond":
        kind, Dx, Dy, R = spec["kind"], spec["Dx"], spec["Dy"], spec["R"]
        tag = ("rootc", kind, Dx, Dy, R)
        M = objs.mat_batch(Dy, Dx, R, vi, seed, tag)
        b = objs.vecn_batch(Dy, R, vi, seed, tag)
        Sy = objs.spd_batch(Dy, R, vi, seed, tag, diag="diag" in kind)
        if kind == "nncontrol":
            o, kw, (M, b, Sy) = objs.mk_cond(kind, M, b, Sy)
            o = o.set_control_variable(kw["u"])
            return o, m_cond("ConditionalGaussianPDF", M, b, Sy)
        o, kw, (M, b, Sy) = objs.mk_cond(kind, M, b, Sy, ctor=spec.get("ctor", "Sigma"))
        return o, m_cond(type(o).__name__, M, b, Sy)
    if t == "factor":
        f, (L, n, bb) = objs.mk_factor(spec["kind"], D, spec["R"], vi, seed, tag=("rootf",))
        return f, m_factor(spec["kind"], L, n, bb)
    if t == "approx":
        return build_approx(spec, seed, vi), dict(t="approx", cls=spec["kind"], Dx=spec["Dx"])
    raise KeyError(t)
