"""C10 -- set_y returns the likelihood x -> p(y|x) including its normaliser."""
import numpy as np
from jax import numpy as jnp

from .. import alphabet as al
from .. import objs
from .. import refmodel as rm

J = jnp.asarray

PROPERTY = "C10"
LEVEL = "exploration"
RULE = (
    "complete product: conditional kind {full,diag,identity,identity_diag,nncontrol} x (Dx,Dy) in {1,2,3}^2 (identity kinds Dx=Dy) x batch convention "
    "{R=1 with N in 1..3 observations, R=N in 2..3} x value index; per case: value vs NumPy normal log-density, vs cond(x)(y), well-formedness of the batch, "
    "slice / product() / multiply usability; distinct = (shard, convention, N, value index)"
)
ASSUMPTIONS = [
    "real-valued parameters are covered on the finite catalogue + VERIF_SEED-indexed generic reals (cond<=1e3) only",
    "sizes bounded as stated in coverage.bounds (quick: Dx,Dy<=3 plus 4x4, 5x5, 6x3 shards, N<=5; thorough: Dx,Dy,N<=5)",
]
BOUNDS = {"quick": dict(D=[1, 2, 3], N=[1, 2, 3]), "thorough": dict(D=[1, 2, 3, 4, 5], N=[1, 2, 3, 4, 5])}
BUDGET = {"quick": 600, "thorough": 3600}


def shards(tier, seed):
    out = []
    Ds = BOUNDS[tier]["D"]
    for kind in objs.COND_KINDS:
        for Dx in Ds:
            for Dy in Ds:
                if kind.startswith("identity") and Dx != Dy:
                    continue
                out.append(dict(id="C10/%s/Dx%d.Dy%d" % (kind, Dx, Dy), kind=kind, Dx=Dx, Dy=Dy, cost=Dx + Dy, facts=dict(kind=kind, Dx=Dx, Dy=Dy)))
    if tier == "quick":
        for kind in ("full", "diag", "identity", "identity_diag"):
            out.append(dict(id="C10/%s/Dx4.Dy4.big" % kind, kind=kind, Dx=4, Dy=4, big=True, cost=10, facts=dict(kind=kind, Dx=4, Dy=4)))
        # eight observed dimensions with extremely small / large noise variances (2^-130, 2^130): the product of the variances leaves the
        # double range although every matrix is perfectly conditioned
        for kind in ("diag", "identity_diag"):
            for sc in (-130, 130):
                out.append(dict(id="C10/%s/Dx8.Dy8.huge.s%d" % (kind, sc), kind=kind, Dx=8, Dy=8, big=2, huge=sc, cost=14, facts=dict(kind=kind, Dx=8, Dy=8)))
        for kind, Dx, Dy in (("full", 5, 5), ("diag", 5, 5), ("full", 6, 3), ("identity", 5, 5)):
            out.append(dict(id="C10/%s/Dx%d.Dy%d.large" % (kind, Dx, Dy), kind=kind, Dx=Dx, Dy=Dy, big=5, cost=12, facts=dict(kind=kind, Dx=Dx, Dy=Dy)))
    return out


def run_shard(shard, ctx):
    tier, seed = shard["tier"], shard["seed"]
    kind, Dx, Dy = shard["kind"], shard["Dx"], shard["Dy"]
    vis = [0, 1, 100] if tier == "quick" else [0, 1, 2, 3, 100, 101, 102, 103, 104, 105]
    Ns = BOUNDS[tier]["N"] if not shard.get("big") else ([4] if shard["big"] is True else [shard["big"]])
    convs = [("R1", N) for N in Ns] + [("RN", N) for N in Ns if N >= 2]
    for conv, N in convs:
        if kind == "nncontrol" and conv == "RN" and N > 3:
            continue
        R = 1 if conv == "R1" else N
        variants = [("Sigma", "fresh")]
        if kind == "nncontrol":
            variants += [("Sigma", "updated")]
        if kind != "nncontrol":
            variants += [("Lambda", "fresh"), ("SigmaLambda", "fresh"), ("all", "fresh"), ("Sigma", "updated"), ("Sigma", "sliced")] + ([("Sigma", "replaced")] if kind in ("full", "diag") else []) + ([("b_none", "fresh"), ("b_none", "sliced")] if not kind.startswith("identity") else [])
        if shard.get("huge"):
            vis, variants = [100], [("Sigma", "fresh")]  # (seed-generic values: the integer catalogue stops at small sizes)
        for vi, (ctor, prep) in [(v, va) for v in vis for va in variants]:
            if (ctor, prep) != ("Sigma", "fresh") and vi not in (0, 100):
                continue
            if not ctx.case(dict(conv=conv, N=N, vi=vi, ctor=ctor, prep=prep)):
                continue
            tag = ("c10", kind, Dx, Dy, conv, N)
            diag = kind in ("diag", "identity_diag")
            M = objs.mat_batch(Dy, Dx, R, vi, seed, tag + ("M",))
            b = objs.vecn_batch(Dy, R, vi, seed, tag + ("b",))
            Sy = objs.spd_batch(Dy, R, vi, seed, tag + ("Sy",), diag=diag)
            if shard.get("huge"):
                Sy = Sy * 2.0 ** shard["huge"]
            with ctx.guard("prepare." + prep, dict(ctor=ctor, prep=prep)) as g:
                if prep == "updated" and kind == "nncontrol":
                    # used with this batch of control variables, then update_Sigma, then used again with the same array
                    cond, kw, (M, b, _) = objs.mk_cond(kind, M, b, Sy * 2.5, ctor=ctor)
                    cond.set_y(J(al.points(N, Dy, salt=9)), **kw)
                    objs.exercise_cond(cond, kw)
                    cond.update_Sigma(J(Sy[:1]))
                    Sy = np.tile(Sy[:1], (R, 1, 1))
                elif prep == "updated":
                    # built with another noise covariance, then updated in place before set_y
                    cond, kw, (M, b, _) = objs.mk_cond(kind, M, b, Sy * 2.5, ctor=ctor)
                    objs.exercise_cond(cond)
                    cond.set_y(J(al.points(N, Dy, salt=9)))
                    cond.update_Sigma(J(Sy))
                elif prep == "replaced":
                    other, kw, _ = objs.mk_cond(kind, M * -0.5 + 1.0, b + 2.0, Sy, ctor=ctor)
                    cond = other.replace(M=J(M), b=J(b))
                elif prep == "sliced":
                    M2 = np.concatenate([M[:1] * -0.5 + 1.0, M], axis=0)
                    b2 = np.concatenate([b[:1] + 3.0, b], axis=0)
                    Sy2 = np.concatenate([Sy[:1] * 2.0, Sy], axis=0)
                    big, kw, (Mb, bb, Syb) = objs.mk_cond(kind, M2, b2, Sy2, ctor=ctor)
                    idx = list(range(-R, 0))
                    cond = big.slice(jnp.array(idx))
                    M, b, Sy = Mb[idx], bb[idx], Syb[idx]
                else:
                    cond, kw, (M, b, Sy) = objs.mk_cond(kind, M, b, Sy, ctor=ctor)
            if not g.ok:
                continue
            y = al.points(N, Dy, salt=vi + 1)
            Nx = 2 if N != 2 else 3
            x = al.points(Nx, Dx, salt=vi)
            facts = dict(conv=conv, N=N, R=R, nterms=1, ctor=ctor, prep=prep)
            if vi == 0 and N == 2:
                ctx.sample(dict(shard=shard["id"], conv=conv, M=M, b=b, Sigma=Sy, y=y, x=x))
            with ctx.guard("set_y.call", facts) as g:
                f = cond.set_y(J(y), **kw)
                got = np.asarray(f.evaluate_ln(J(x)))
            if not g.ok:
                continue
            ref = np.zeros((N, Nx))
            for n in range(N):
                r = 0 if R == 1 else n
                for m in range(Nx):
                    ref[n, m] = rm.gauss_logpdf(y[n], M[r] @ x[m] + b[r], Sy[r])[0]
            ok = ctx.close("set_y.value", got, ref, facts=facts)
            # the same number from cond(x)(y)
            with ctx.guard("set_y.vs_condition", facts):
                cx = cond.condition_on_x(J(x)) if "u" not in kw else cond.condition_on_x_u(J(x), kw["u"])
                lp = np.asarray(cx.evaluate_ln(J(y)))  # [R*Nx, N]
                lib = np.zeros((N, Nx))
                for n in range(N):
                    r = 0 if R == 1 else n
                    for m in range(Nx):
                        lib[n, m] = lp[r * Nx + m, n]
                if got.shape == lib.shape:
                    ctx.close("set_y.vs_condition", got, lib, facts=facts)
            # well-formed batch with one component per observation
            wf = True
            if f.R != N:
                ctx.fail("set_y.wellformed", "malformed_batch", observed=int(f.R), expected=N, facts=facts, msg="factor.R != number of observations")
                wf = False
            for a in ("Lambda", "nu", "ln_beta"):
                arr = getattr(f, a)
                if arr.shape[0] != N:
                    ctx.fail("set_y.wellformed", "malformed_batch", observed=list(arr.shape), expected=N, facts=dict(facts, attr=a), msg="leading dimension of %s is not N" % a)
                    wf = False
            # usable like any other factor
            with ctx.guard("set_y.slice", facts):
                for idx in ([N - 1], [0, N - 1, 0][: max(1, min(3, N))], [-1]):
                    fs = f.slice(jnp.array(idx))
                    ctx.close("set_y.slice", np.asarray(fs.evaluate_ln(J(x))), ref[idx], facts=facts)
            with ctx.guard("set_y.product", facts):
                fp = f.product()
                ctx.close("set_y.product", np.asarray(fp.evaluate_ln(J(x))), np.sum(ref, axis=0, keepdims=True), facts=dict(facts, nterms=N))
            with ctx.guard("set_y.multiply", facts):
                Lam = objs.spd_batch(Dx, 2, vi, seed, tag + ("prior",))
                nu = objs.vec_batch(Dx, 2, vi, seed, tag + ("prior",))
                lnb = objs.lnb_batch(2, vi, seed)
                prior = objs.mk_measure("GaussianMeasure", Lam, nu, lnb)
                pm = prior.multiply(f, update_full=True)
                lpr = np.array([rm.quad_ln(x, Lam[r], nu[r], lnb[r]) for r in range(2)])
                refm = (lpr[:, None, :] + ref[None, :, :]).reshape(2 * N, Nx)
                ctx.close("set_y.multiply", np.asarray(pm.evaluate_ln(J(x))), refm, facts=facts)
                # evidence route: integral of prior*likelihood
                post = prior.slice(jnp.array([0])).multiply(f.product(), update_full=True)
                Lp = Lam[0].copy()
                nup = nu[0].copy()
                cp = lnb[0]
                for n in range(N):
                    r = 0 if R == 1 else n
                    Li = np.linalg.inv(Sy[r])
                    Lp = Lp + M[r].T @ Li @ M[r]
                    nup = nup + M[r].T @ Li @ (y[n] - b[r])
                    cp = cp + rm.gauss_logpdf(y[n], b[r], Sy[r])[0]
                ctx.close("set_y.evidence", np.asarray(post.log_integral()), np.array([rm.ln_integral(Lp, nup, cp)]), facts=dict(facts, nterms=N))
