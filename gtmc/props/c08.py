"""C08 driver (see _affine.py)."""
from . import _affine

PROPERTY = "C08"
LEVEL = "exploration"
RULE = (
    "bounded-exhaustive product: conditional kind {full,diag,identity,identity_diag,nncontrol} x batch layout (R_cond,R_x) "
    "with one side single x (Dx,Dy) x catalogue value index x N points; every case executed on the real classes and compared "
    "with the NumPy reference model; a case is non-trivial/distinct by (shard id, value index, N)"
)
ASSUMPTIONS = [
    "real-valued parameters are covered on the finite catalogue (integer SPD / sign-mixed integer matrices + VERIF_SEED-indexed generic reals, cond<=1e3) only",
    "sizes bounded as stated in coverage.bounds",
]
BOUNDS = {t: dict(layouts=_affine.LAYOUTS[t], dims=_affine.DIMS[t], values=_affine.NVAL[t]) for t in ("quick", "thorough")}
BUDGET = {"quick": 600, "thorough": 3600}


def shards(tier, seed):
    return _affine.make_shards(tier, seed, PROPERTY)


def run_shard(shard, ctx):
    _affine.run(shard, ctx, PROPERTY)
