"""C19 -- samples follow the density's law and are reproducible.

The only nondeterminism (jax.random.normal) is owned by the harness: it is
replaced by a recorder / stub while p.sample runs, and ALL basis environment
answers (zero tensor + every unit tensor) are enumerated."""
import itertools

import numpy as np
import jax
from jax import numpy as jnp

from .. import alphabet as al
from .. import objs

J = jnp.asarray

PROPERTY = "C19"
LEVEL = "exploration"
TECHNIQUE = "exhaustive enumeration of environment answers: jax.random.normal interposed by the harness, zero + all n*R*D unit tensors identify the affine map of sample(); T T' compared with I_n (x) blockdiag(Sigma_r)"
RULE = (
    "complete product: density kind x R x D x n in {1,2,3} x SPD catalogue (strongly correlated members included) x keys; per case the harness answers the library's "
    "normal draw with the zero tensor and with EVERY unit tensor of shape (n,R,D) (affine identification), verifies additivity on all pairs (n*R*D<=8) and compares "
    "T T' with I_n (x) blockdiag(Sigma_1..Sigma_R); recorder mode: same key twice -> bit-identical, exactly one draw of shape (n,R,D) from the given key, output = mu + T z. "
    "distinct = (shard, R, n, value index, key)"
)
ASSUMPTIONS = [
    "jax.random.normal(key, shape) is a standard normal stream (trusted base); the law of the output under z~N(0,I) is then exactly N(mu, T T')",
    "if the implementation stopped drawing through jax.random.normal the check falls back to fixed-key statistics (6 standard errors, n=2e5) and says so in the counters",
    "real-valued parameters on the finite catalogue + VERIF_SEED-indexed generic reals only; R,D,n<=3 (thorough 4)",
]
BOUNDS = {"quick": dict(R=[1, 2, 3], D=[1, 2, 3], n=[1, 2, 3]), "thorough": dict(R=[1, 2, 3, 4, 5], D=[1, 2, 3, 4, 5], n=[1, 2, 3, 4, 5])}
BUDGET = {"quick": 600, "thorough": 3600}


def shards(tier, seed):
    out = []
    for kind in ("GaussianPDF", "GaussianDiagPDF"):
        for D in BOUNDS[tier]["D"]:
            for R in BOUNDS[tier]["R"]:
                out.append(dict(id="C19/%s/D%d/R%d" % (kind, D, R), kind=kind, D=D, R=R, cost=D * R, facts=dict(kind=kind, D=D, R=R)))
    if tier == "quick":
        out.append(dict(id="C19/GaussianPDF/D4/R4.big", kind="GaussianPDF", D=4, R=4, big=True, cost=20, facts=dict(kind="GaussianPDF", D=4, R=4)))
        for kind in ("GaussianPDF", "GaussianDiagPDF"):
            out.append(dict(id="C19/%s/D5/R5.large" % kind, kind=kind, D=5, R=5, big=5, cost=30, facts=dict(kind=kind, D=5, R=5)))
    return out


class Interpose:
    def __init__(self, answer=None):
        self.answer = answer
        self.calls = []

    def __enter__(self):
        self.orig = jax.random.normal
        me = self

        def fake(key, shape=(), dtype=None, *a, **k):
            real = me.orig(key, shape, *( [dtype] if dtype is not None else []), *a, **k)
            me.calls.append((np.asarray(jax.random.key_data(key) if hasattr(jax.random, "key_data") else key), tuple(shape), np.asarray(real)))
            if me.answer is None:
                return real
            return jnp.asarray(me.answer).reshape(shape).astype(real.dtype)

        jax.random.normal = fake
        return self

    def __exit__(self, *a):
        jax.random.normal = self.orig
        return False


def run_shard(shard, ctx):
    tier, seed = shard["tier"], shard["seed"]
    kind, D, R = shard["kind"], shard["D"], shard["R"]
    diag = "Diag" in kind
    ncat = len(al.diag_catalogue(D) if diag else al.spd_catalogue(D))
    vis = ([0, ncat - 1, 100] if tier == "quick" else list(range(min(ncat, 6))) + [100, 101])
    if D == 3 and not diag:
        # near-singular / dense mixed-sign members are part of the catalogue: make sure one is used
        conds = [np.linalg.cond(A) for A in al.spd_catalogue(3)]
        vis = sorted(set(vis + [int(np.argmax(conds))]))
    for n in (BOUNDS[tier]["n"] if not shard.get("big") else ([4] if shard["big"] is True else [shard["big"]])):
        for vi in (vis if not shard.get("big") else [0, 100]):
            tag = ("c19", kind, D, R)
            Sig = objs.spd_batch(D, R, vi, seed, tag, diag=diag)
            mu = objs.vec_batch(D, R, vi, seed, tag)
            variants = objs.pdf_variants(kind, Sig, mu, which=("fresh", "sliced_neg", "updated", "Sigma+Lambda", "replaced_mu", "prod_conjugate", "conditioned", "prod_linear", "prod_constant", "hadamard_onerank", "multiply_onerank", "joint_of_cond", "hadamard_linear_bcast", "hadamard_linear_bcast>marginal", "hadamard_linear_bcast>slice", "posterior_identity") if (vi in (0, 100) and (n == 2 or shard.get("big"))) else ("fresh",))
            Sig0, mu0 = Sig, mu
            for (prep, mkp, mu, Sig), kseed in [(v, k) for v in variants for k in ((0, 7) if tier == "quick" else (0, 7, 123))]:
                if prep != "fresh" and kseed != 0:
                    continue
                if not ctx.case(dict(n=n, vi=vi, key=kseed, prep=prep)):
                    continue
                facts = dict(n=n, vi=vi, prep=prep)
                with ctx.guard("prepare." + prep, facts) as g:
                    p = mkp()
                if not g.ok:
                    continue
                key = jax.random.PRNGKey(kseed)
                # ---- recorder mode ------------------------------------------------
                with ctx.guard("sample.call", facts) as g:
                    with Interpose() as rec:
                        s1 = np.asarray(p.sample(key, n))
                    s2 = np.asarray(p.sample(key, n))
                if not g.ok:
                    continue
                if s1.shape != (n, R, D):
                    ctx.fail("sample.shape", "shape", observed=list(s1.shape), expected=[n, R, D], facts=facts)
                    continue
                if not np.array_equal(s1, s2):
                    ctx.fail("sample.reproducible", "not_deterministic", facts=facts)
                if not rec.calls:
                    ctx.count("fallback_statistical")
                    statistical(ctx, p, mu, Sig, facts)
                    continue
                if len(rec.calls) != 1 or int(np.prod(rec.calls[0][1])) != n * R * D:
                    ctx.fail("sample.stream", "unexpected_draws", observed=[c[1] for c in rec.calls], facts=facts, msg="expected exactly one normal draw of n*R*D numbers")
                    continue
                if not np.array_equal(rec.calls[0][0], np.asarray(jax.random.key_data(key) if hasattr(jax.random, "key_data") else key)):
                    ctx.fail("sample.stream", "foreign_key", facts=facts, msg="randomness not drawn from the given key")
                z = rec.calls[0][2]
                zshape = rec.calls[0][1]
                if kseed == 0:
                    # ---- stub mode: zero + every unit tensor ---------------------
                    m = n * R * D
                    with Interpose(np.zeros(zshape)):
                        r0 = np.asarray(p.sample(key, n)).reshape(-1)
                    T = np.zeros((m, m))
                    resp = []
                    for k in range(m):
                        e = np.zeros(m)
                        e[k] = 1.0
                        with Interpose(e.reshape(zshape)):
                            rk = np.asarray(p.sample(key, n)).reshape(-1)
                        resp.append(rk)
                        T[:, k] = rk - r0
                    ctx.count("environment_answers", m + 1)
                    ctx.close("sample.mean", r0.reshape(n, R, D), np.tile(mu[None], (n, 1, 1)), facts=facts)
                    if m <= 8:
                        for k, l in itertools.combinations(range(m), 2):
                            e = np.zeros(m)
                            e[k] = e[l] = 1.0
                            with Interpose(e.reshape(zshape)):
                                rkl = np.asarray(p.sample(key, n)).reshape(-1)
                            ctx.close("sample.additive", rkl, resp[k] + resp[l] - r0, facts=facts)
                        ctx.count("environment_answers", m * (m - 1) // 2)
                    want = np.zeros((n, R, D, n, R, D))
                    for i in range(n):
                        for r in range(R):
                            want[i, r, :, i, r, :] = Sig[r]
                    ctx.close("sample.covariance", T @ T.T, want.reshape(m, m), facts=facts)
                    ctx.close("sample.affine_image_of_stream", s1.reshape(-1), r0 + T @ z.reshape(-1), facts=facts)
                    if vi == 0 and n == 2:
                        ctx.sample(dict(shard=shard["id"], n=n, Sigma=Sig, mu=mu, T=T, key=kseed))
                else:
                    other = np.asarray(p.sample(jax.random.PRNGKey(0), n))
                    if np.array_equal(other, s1):
                        ctx.fail("sample.key_dependence", "key_ignored", facts=facts)


def statistical(ctx, p, mu, Sig, facts):
    R, D = mu.shape
    n = 200000
    for kseed in (0, 1):
        s = np.asarray(p.sample(jax.random.PRNGKey(kseed), n))
        for r in range(R):
            m = s[:, r].mean(0)
            se = np.sqrt(np.diag(Sig[r]) / n)
            if np.any(np.abs(m - mu[r]) > 6 * se):
                ctx.fail("sample.stat_mean", "value", observed=m, expected=mu[r], facts=facts)
            C = np.cov(s[:, r].T).reshape(D, D)
            sec = np.sqrt((np.outer(np.diag(Sig[r]), np.diag(Sig[r])) + Sig[r] ** 2) / n)
            if np.any(np.abs(C - Sig[r]) > 6 * sec):
                ctx.fail("sample.stat_cov", "value", observed=C, expected=Sig[r], facts=facts)
            for r2 in range(r + 1, R):
                cc = np.corrcoef(s[:, r, 0], s[:, r2, 0])[0, 1]
                if abs(cc) > 6 / np.sqrt(n):
                    ctx.fail("sample.stat_cross", "value", observed=cc, expected=0.0, facts=facts)
