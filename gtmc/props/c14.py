"""C14 -- expected log-factor and expected log-conditional integrals are exact."""
import numpy as np
from jax import numpy as jnp

from .. import alphabet as al
from .. import objs
from .. import refmodel as rm
from . import _graph

J = jnp.asarray

PROPERTY = "C14"
LEVEL = "exploration"
TECHNIQUE = "bounded-exhaustive enumeration (factor kinds x batch layouts; conditional kinds x (Dx,Dy) x q layouts; feature models x (Dx,Dy,Dk)) vs NumPy closed forms and certified composite Gauss-Legendre quadrature of the object's own conditional mean"
RULE = (
    "complete product: (a) factor kind x R_f in {1,R} x measure kind x R x D x value index for integrate('log u(x)'); (b) linear conditional kind x (Dx,Dy) x q batch x value index for "
    "integrate_log_conditional with an ARBITRARY Gaussian q over (y,x); (c) integrate_log_conditional_y as callable and with y supplied; (d) RBF / squared-exponential feature models x Dx in {1,2} x Dy x Dk: "
    "outer integral over x by tensor composite Gauss-Legendre in the whitened variable at two resolutions (certificate), conditional mean read black-box from condition_on_x(nodes). distinct = (shard, layout, value index)"
)
ASSUMPTIONS = [
    "real-valued parameters on the finite catalogue + VERIF_SEED-indexed generic reals (cond<=1e3) only; D,Dx,Dy<=3, Dk<=3",
    "feature models: quadrature value trusted only when two composite Gauss-Legendre resolutions agree to 1e-10*scale (else the case is excluded and counted); kernel length scales >= 0.5, |W| <= 1",
]
BOUNDS = {"quick": dict(D=[1, 2, 3], R=[1, 2, 3]), "thorough": dict(D=[1, 2, 3, 4, 5], R=[1, 2, 3, 4, 5])}
BUDGET = {"quick": 600, "thorough": 3600}

FK = ["ConjugateFactor", "OneRankFactor", "LinearFactor", "ConstantFactor", "GaussianMeasure", "GaussianPDF"]
MK = ["GaussianMeasure", "GaussianDiagMeasure", "GaussianPDF"]


def shards(tier, seed):
    out = []
    Ds = BOUNDS[tier]["D"]
    for fk in FK:
        for D in Ds:
            out.append(dict(id="C14/logfactor/%s/D%d" % (fk, D), part="logfactor", fk=fk, D=D, cost=D, facts=dict(fk=fk, D=D)))
        if tier == "quick":
            out.append(dict(id="C14/logfactor/%s/D5.large" % fk, part="logfactor", fk=fk, D=5, large=True, cost=8, facts=dict(fk=fk, D=5)))
    for kind in objs.COND_KINDS:
        for Dx in Ds[:3]:
            for Dy in Ds[:3]:
                if kind.startswith("identity") and Dx != Dy:
                    continue
                out.append(dict(id="C14/cond/%s/Dx%d.Dy%d" % (kind, Dx, Dy), part="cond", kind=kind, Dx=Dx, Dy=Dy, cost=Dx + Dy, facts=dict(kind=kind, Dx=Dx, Dy=Dy)))
    for kind in ("LRBF", "LSEM"):
        for Dx in (1, 2):
            for Dy in (1, 2):
                for Dk in (1, 2, 3):
                    out.append(dict(id="C14/feature/%s/Dx%d.Dy%d.Dk%d" % (kind, Dx, Dy, Dk), part="feature", kind=kind, Dx=Dx, Dy=Dy, Dk=Dk, cost=6 * Dx, facts=dict(kind=kind, Dx=Dx, Dy=Dy, Dk=Dk)))
    return out


def run_shard(shard, ctx):
    {"logfactor": run_logfactor, "cond": run_cond, "feature": run_feature}[shard["part"]](shard, ctx)


def meas(kind, D, R, vi, seed, tag):
    diag = "Diag" in kind
    if "PDF" in kind:
        Sig = objs.spd_batch(D, R, vi, seed, tag, diag=diag)
        mu = objs.vec_batch(D, R, vi, seed, tag)
        return objs.mk_pdf(kind, Sig, mu), np.ones(R), mu, Sig
    Lam = objs.spd_batch(D, R, vi, seed, tag, diag=diag)
    nu = objs.vec_batch(D, R, vi, seed, tag)
    lnb = objs.lnb_batch(R, vi, seed, tag)
    ms = [rm.nat_to_moment(Lam[r], nu[r]) for r in range(R)]
    mass = np.exp([rm.ln_integral(Lam[r], nu[r], lnb[r]) for r in range(R)])
    return objs.mk_measure(kind, Lam, nu, lnb), mass, np.array([m[0] for m in ms]), np.array([m[1] for m in ms])


def run_logfactor(shard, ctx):
    tier, seed = shard["tier"], shard["seed"]
    fk, D = shard["fk"], shard["D"]
    vis = [0, 1, 100] if tier == "quick" else [0, 1, 2, 100, 101, 102, 103, 104, 105]
    for mk in MK:
        for R in (BOUNDS[tier]["R"] if not shard.get("large") else [5]):
            for Rf in sorted({1, R}):
                for vi in vis:
                    if not ctx.case(dict(mk=mk, R=R, Rf=Rf, vi=vi)):
                        continue
                    u, mass, mu, Sig = meas(mk, D, R, vi, seed, ("c14u", mk, D, R))
                    f, (L, n, b) = objs.mk_factor(fk, D, Rf, vi, seed, tag=("c14f",))
                    facts = dict(mk=mk, R=R, Rf=Rf)
                    with ctx.guard("log_factor.call", facts) as g:
                        got = np.asarray(u.integrate("log u(x)", factor=f))
                    if not g.ok:
                        continue
                    ref = np.zeros(R)
                    for r in range(R):
                        rf = r if Rf > 1 else 0
                        ref[r] = mass[r] * (-0.5 * (np.trace(L[rf] @ Sig[r]) + mu[r] @ L[rf] @ mu[r]) + n[rf] @ mu[r] + b[rf])
                    ctx.close("log_factor.value", got, ref, scale=float(np.max(np.abs(ref))), facts=facts)
                    if vi == 0 and R == 2 and Rf == 2 and mk == "GaussianMeasure":
                        ctx.sample(dict(shard=shard["id"], measure=dict(mass=mass, mu=mu, Sigma=Sig), factor=dict(Lambda=L, nu=n, ln_beta=b), expected=ref))


def exp_log_cond(M, b, Sy, mq, Sq, Dy):
    """E_q[ln N(y; Mx+b, Sy)], q = N(mq, Sq) over z=(y,x)."""
    Dx = M.shape[1]
    A = np.concatenate([np.eye(Dy), -M], axis=1)
    Li = np.linalg.inv(Sy)
    r = A @ mq - b
    return -0.5 * (np.trace(Li @ A @ Sq @ A.T) + r @ Li @ r + np.linalg.slogdet(Sy)[1] + Dy * rm.LN2PI)


def run_cond(shard, ctx):
    tier, seed = shard["tier"], shard["seed"]
    kind, Dx, Dy = shard["kind"], shard["Dx"], shard["Dy"]
    vis = [0, 1, 100] if tier == "quick" else [0, 1, 2, 100, 101, 102, 103, 104, 105]
    from . import _affine

    for vi, ctor in [(v, c) for v in vis for c in _affine.ctors_for(kind)]:
        if ctor != "Sigma" and vi not in (0, 100):
            continue
        for Rq in BOUNDS[tier]["R"][:3]:
            for Rc in sorted({1, Rq}) if kind in ("full", "diag") else (1,):
                if not ctx.case(dict(vi=vi, Rq=Rq, Rc=Rc, ctor=ctor)):
                    continue
                tag = ("c14c", kind, Dx, Dy)
                M = objs.mat_batch(Dy, Dx, Rc, vi, seed, tag)
                b = objs.vecn_batch(Dy, Rc, vi, seed, tag)
                Sy = objs.spd_batch(Dy, Rc, vi, seed, tag, diag="diag" in kind)
                if ctor == "Sigma" and kind != "nncontrol" and vi == 0:
                    # reached from elsewhere: built with another covariance, used, then update_Sigma
                    cond, kw, (M, b, _) = objs.mk_cond(kind, M, b, Sy * 2.0, ctor=ctor)
                    cond.update_Sigma(J(Sy))
                else:
                    cond, kw, (M, b, Sy) = objs.mk_cond(kind, M, b, Sy, ctor=ctor)
                Sq = objs.spd_batch(Dx + Dy, Rq, vi + 1, seed, tag + ("q",))
                mq = objs.vec_batch(Dx + Dy, Rq, vi + 1, seed, tag + ("q",))
                q = objs.mk_pdf("GaussianPDF", Sq, mq)
                facts = dict(Rq=Rq, Rc=Rc, ctor=ctor)
                with ctx.guard("log_conditional.call", facts) as g:
                    got = np.asarray(cond.integrate_log_conditional(q, **kw))
                if g.ok:
                    ref = np.array([exp_log_cond(M[r if Rc > 1 else 0], b[r if Rc > 1 else 0], Sy[r if Rc > 1 else 0], mq[r], Sq[r], Dy) for r in range(Rq)])
                    ctx.close("log_conditional.value", got, ref, facts=facts)
                    if vi == 0 and Rq == 2 and Rc == 1:
                        ctx.sample(dict(shard=shard["id"], M=M, b=b, Sigma=Sy, q_mu=mq, q_Sigma=Sq, expected=ref))
                if Rc != 1:
                    continue
                # integrate_log_conditional_y: callable and evaluated; y rows paired with p_x components
                Sx = objs.spd_batch(Dx, Rq, vi + 2, seed, tag + ("px",))
                mx = objs.vec_batch(Dx, Rq, vi + 2, seed, tag + ("px",))
                p_x = objs.mk_pdf("GaussianPDF", Sx, mx)
                y = al.points(Rq, Dy, salt=vi)
                Li = np.linalg.inv(Sy[0])
                refy = np.zeros(Rq)
                for r in range(Rq):
                    d = y[r] - M[0] @ mx[r] - b[0]
                    refy[r] = -0.5 * (d @ Li @ d + np.trace(Li @ M[0] @ Sx[r] @ M[0].T) + np.linalg.slogdet(Sy[0])[1] + Dy * rm.LN2PI)
                with ctx.guard("log_conditional_y.call", facts):
                    fn = cond.integrate_log_conditional_y(p_x, **kw)
                    ctx.close("log_conditional_y.callable", np.asarray(fn(J(y))), refy, facts=facts)
                    ctx.close("log_conditional_y.evaluated", np.asarray(cond.integrate_log_conditional_y(p_x, y=J(y), **kw)), refy, facts=facts)


def feature_model(shard, vi, seed):
    spec = dict(kind=shard["kind"], Dx=shard["Dx"], Dy=shard["Dy"], Dk=shard["Dk"])
    return _graph.build_approx(spec, seed, vi)


def gh_expect(fn, mu, Sig, ns):
    """Two resolutions of the tensor composite Gauss-Legendre rule (certificate)."""
    vals = []
    for n in ns:
        X, W = rm.normal_expect_nodes(mu, Sig, n, h=0.25 if len(mu) == 1 else 0.3, zmax=8.5 if len(mu) == 1 else 7.5)
        vals.append(np.sum(W * fn(X)))
    return vals


def run_feature(shard, ctx):
    tier, seed = shard["tier"], shard["seed"]
    kind, Dx, Dy, Dk = shard["kind"], shard["Dx"], shard["Dy"], shard["Dk"]
    ns = (8, 12) if Dx == 1 else (7, 10)
    vis = [0, 100] if tier == "quick" else [0, 1, 100, 101, 102, 103, 104, 105]
    for vi in vis:
        for Rq, prep in ((1, "fresh"), (2, "fresh"), (1, "updated")):
            if not ctx.case(dict(vi=vi, Rq=Rq, prep=prep)):
                continue
            cond = feature_model(shard, vi, seed)
            if prep == "updated":
                # used once, then the noise covariance is replaced in place, then used again
                with ctx.guard("feature.update_Sigma", dict(prep=prep)) as g:
                    q0 = objs.mk_pdf("GaussianPDF", objs.spd_batch(Dx + Dy, 1, vi + 1, seed, ("c14f0",)), objs.vec_batch(Dx + Dy, 1, vi + 1, seed, ("c14f0",)) * 0.5)
                    cond.integrate_log_conditional(q0)
                    cond.update_Sigma(J(objs.spd_batch(Dy, 1, vi + 3, seed, ("c14fS",))))
                if not g.ok:
                    continue
            Sy = np.asarray(cond.Sigma)[0]
            Li = np.linalg.inv(Sy)
            const = -0.5 * (np.linalg.slogdet(Sy)[1] + Dy * rm.LN2PI)
            tag = ("c14f", kind, Dx, Dy, Dk)
            Sq = objs.spd_batch(Dx + Dy, Rq, vi + 1, seed, tag + ("q",))
            mq = objs.vec_batch(Dx + Dy, Rq, vi + 1, seed, tag + ("q",)) * 0.5
            q = objs.mk_pdf("GaussianPDF", Sq, mq)
            facts = dict(Rq=Rq, prep=prep)

            def mu_of(X):
                return np.asarray(cond.condition_on_x(J(X)).mu)

            with ctx.guard("feature.log_conditional.call", facts) as g:
                got = np.asarray(cond.integrate_log_conditional(q))
            if g.ok:
                ref = np.zeros(Rq)
                cert = True
                for r in range(Rq):
                    ix = list(range(Dy, Dy + Dx))
                    iy = list(range(Dy))
                    Mc, cc, Sc = rm.conditional(mq[r], Sq[r], iy, ix)  # q(y|x)
                    mxq, Sxq = rm.marginal(mq[r], Sq[r], ix)

                    def integrand(X):
                        d = (X @ Mc.T + cc) - mu_of(X)
                        return np.einsum("pi,ij,pj->p", d, Li, d)

                    v = gh_expect(integrand, mxq, Sxq, ns)
                    cert &= abs(v[0] - v[1]) <= 1e-10 * max(1.0, abs(v[1]))
                    ref[r] = -0.5 * (v[1] + np.trace(Li @ Sc)) + const
                if cert:
                    ctx.close("feature.log_conditional.value", got, ref, facts=facts)
                    with ctx.guard("feature.log_conditional.px_supplied", facts):
                        ix = list(range(Dy, Dy + Dx))
                        pxs = objs.mk_pdf("GaussianPDF", np.array([Sq[r][np.ix_(ix, ix)] for r in range(Rq)]), mq[:, ix])
                        ctx.close("feature.log_conditional.px_supplied", np.asarray(cond.integrate_log_conditional(q, p_x=pxs)), ref, facts=facts)
                    if vi == 0 and Rq == 1:
                        ctx.sample(dict(shard=shard["id"], q_mu=mq, q_Sigma=Sq, expected=ref, nodes_per_panel=ns))
                else:
                    ctx.count("excluded_uncertified")
            # integrate_log_conditional_y
            Sx = objs.spd_batch(Dx, Rq, vi + 2, seed, tag + ("px",))
            mx = objs.vec_batch(Dx, Rq, vi + 2, seed, tag + ("px",)) * 0.5
            p_x = objs.mk_pdf("GaussianPDF", Sx, mx)
            y = al.points(Rq, Dy, salt=vi)
            with ctx.guard("feature.log_conditional_y.call", facts) as g:
                fn = cond.integrate_log_conditional_y(p_x)
                got_c = np.asarray(fn(J(y)))
                got_e = np.asarray(cond.integrate_log_conditional_y(p_x, y=J(y)))
            if g.ok:
                ref = np.zeros(Rq)
                cert = True
                for r in range(Rq):
                    def integrand(X, r=r):
                        d = y[r][None] - mu_of(X)
                        return np.einsum("pi,ij,pj->p", d, Li, d)

                    v = gh_expect(integrand, mx[r], Sx[r], ns)
                    cert &= abs(v[0] - v[1]) <= 1e-10 * max(1.0, abs(v[1]))
                    ref[r] = -0.5 * v[1] + const
                if cert:
                    ctx.close("feature.log_conditional_y.callable", got_c, ref, facts=facts)
                    ctx.close("feature.log_conditional_y.evaluated", got_e, ref, facts=facts)
                else:
                    ctx.count("excluded_uncertified")
