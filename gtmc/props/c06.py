"""C06 -- conditioning on coordinates satisfies p(x_a|x_b) p(x_b) = p(x)."""
import itertools

import numpy as np
from jax import numpy as jnp

from .. import alphabet as al
from .. import objs
from .. import refmodel as rm

J = jnp.asarray

PROPERTY = "C06"
LEVEL = "exploration"
RULE = (
    "complete product: density kind {GaussianPDF, GaussianDiagPDF} x R x D in 2..4 x EVERY proper non-empty index subset in EVERY order (condition_on) "
    "and every ordered pair of lists partitioning the coordinates (condition_on_explicit) x value index; oracle: covariance Schur complement in NumPy, "
    "product rule against the NumPy joint log-density and the library's own joint evaluation; distinct = (shard, R, index list(s), value index)"
)
ASSUMPTIONS = [
    "real-valued parameters are covered on the finite catalogue + VERIF_SEED-indexed generic reals (cond<=1e3) only",
    "sizes bounded as stated in coverage.bounds (quick: D<=5, R<=5; thorough: D<=6, R<=5)",
]
BOUNDS = {"quick": dict(D=[2, 3, 4], R=[1, 2, 4]), "thorough": dict(D=[2, 3, 4, 5, 6], R=[1, 2, 3, 4, 5])}
BUDGET = {"quick": 600, "thorough": 3600}


def shards(tier, seed):
    out = []
    for kind in ("GaussianPDF", "GaussianDiagPDF"):
        for D in BOUNDS[tier]["D"]:
            for R in BOUNDS[tier]["R"]:
                out.append(dict(id="C06/%s/D%d/R%d" % (kind, D, R), kind=kind, D=D, R=R, cost=D ** 3, facts=dict(kind=kind, D=D, R=R)))
        if tier == "quick":
            out.append(dict(id="C06/%s/D5/R5.large" % kind, kind=kind, D=5, R=5, cost=150, facts=dict(kind=kind, D=5, R=5)))
    return out


def run_shard(shard, ctx):
    tier, seed = shard["tier"], shard["seed"]
    kind, D, R = shard["kind"], shard["D"], shard["R"]
    diag = "Diag" in kind
    vis = [0, 100, objs.HARD] if tier == "quick" else [0, 1, 100, 101, 102, 103, 104, 105, objs.HARD]
    lists = al.all_index_lists(D, proper=True)
    if D >= 6:
        lists = [l for l in lists if len(l) <= 2] + [l for l in lists if len(l) > 2][::7]
    N = 2 if R != 2 else 3
    for vi in vis:
        tag = ("c06", kind, D, R)
        Sig = objs.spd_batch(D, R, vi, seed, tag, diag=diag)
        mu = objs.vec_batch(D, R, vi, seed, tag)
        which = ("fresh", "sliced_neg", "updated", "Sigma+Lambda", "queried", "replaced_mu", "prod_conjugate", "conditioned", "prod_linear", "prod_constant", "hadamard_onerank", "multiply_onerank", "joint_of_cond", "hadamard_linear_bcast", "hadamard_linear_bcast>marginal", "hadamard_linear_bcast>slice", "posterior_identity") if (vi == 0 and D <= 3) else ("fresh",)
        for prep, mkp, mu_e, Sig_e in objs.pdf_variants(kind, Sig, mu, which=which):
            with ctx.guard("prepare." + prep, dict(prep=prep)) as g:
                p = mkp()
            if g.ok:
                cond_on(ctx, shard, tier, p, kind, D, R, N, vi, mu_e, Sig_e, lists, prep)
        if vi == 0 and D <= 3:
            # used, then every component replaced in place, then used again with the same index lists
            with ctx.guard("prepare.used_then_updated") as g:
                p = objs.mk_pdf(kind, Sig * 2.0, mu + 1.0)
                for b_ in lists:
                    a_ = [d for d in range(D) if d not in b_]
                    p.condition_on(jnp.array(b_))
                    p.condition_on_explicit(jnp.array(b_), jnp.array(a_))
                    p.get_marginal(jnp.array(b_))
                p.update(jnp.arange(R), objs.mk_pdf(kind, Sig, mu))
            if g.ok:
                cond_on(ctx, shard, tier, p, kind, D, R, N, vi, mu, Sig, lists, "used_then_updated")


def cond_on(ctx, shard, tier, p, kind, D, R, N, vi, mu, Sig, lists, prep):
    if True:
        x = al.points(N, D, salt=vi + D)
        if vi == objs.HARD:
            x = x * 0.5 + mu[0][None]  # near the first component's mean, ~50 sigma from the origin (and from the other components)
        lpj = np.asarray(p.evaluate_ln(J(x)))
        refj = np.array([rm.gauss_logpdf(x, mu[r], Sig[r]) for r in range(R)])
        ctx.close("joint.value", lpj, refj)
        with ctx.guard("joint.call"):
            objs.call_matches(ctx, "joint.call_value", p(J(x)), refj, lscale=objs.ln_scale(x, Sig))
        objs.elementwise_matches(ctx, "joint.elementwise", p, mu, Sig, facts=dict(prep=prep), salt=vi)
        for b in lists:
            a_sorted = [d for d in range(D) if d not in b]
            variants = [("condition_on", a_sorted)]
            # explicit: all orders of the complement (quick: ascending + reversed + one rotation)
            perms = list(itertools.permutations(a_sorted))
            if tier == "quick" and len(perms) > 3:
                perms = [perms[0], perms[-1], perms[len(perms) // 2]]
            variants += [("condition_on_explicit", list(pa)) for pa in perms]
            for op, a in variants:
                if not ctx.case(dict(vi=vi, b=b, a=a, op=op, prep=prep)):
                    continue
                facts = dict(op=op, nb=len(b), b_sorted=b == sorted(b), a_sorted=a == sorted(a), prep=prep)
                if vi == 0 and R == 2 and b == sorted(b, reverse=True) and len(b) == 2 and op == "condition_on":
                    ctx.sample(dict(shard=shard["id"], op=op, dim_y=b, dim_x=a, Sigma=Sig, mu=mu, x=x))
                with ctx.guard(op + ".call", facts) as g:
                    if op == "condition_on":
                        c = p.condition_on(objs.idx(b, len(b) + sum(b)))
                    else:
                        c = p.condition_on_explicit(objs.idx(b, sum(b)), objs.idx(a, sum(a) + 1))
                    cx = c.condition_on_x(J(x[:, b]))
                    lp = np.asarray(cx.evaluate_ln(J(x[:, a])))  # [R*N, N]
                    dens = np.asarray(cx(J(x[:, a])))  # the density form, as the statement is written: p(x_a|x_b) * p(x_b), both from the library
                    dmarg = np.asarray(p.get_marginal(objs.idx(b, sum(b) + 2))(J(x[:, b])))
                if not g.ok:
                    continue
                lhs = np.zeros((R, N))
                Mr, br, Sr = [], [], []
                for r in range(R):
                    mb, Sb = rm.marginal(mu[r], Sig[r], b)
                    lb = rm.gauss_logpdf(x[:, b], mb, Sb)
                    for n in range(N):
                        lhs[r, n] = lp[r * N + n, n] + lb[n]
                    M_, c_, S_ = rm.conditional(mu[r], Sig[r], a, b)
                    Mr.append(M_), br.append(c_), Sr.append(S_)
                ctx.close(op + ".product_rule", lhs, refj, facts=facts)
                if dens is not None:
                    objs.call_matches(ctx, op + ".product_rule_density", np.array([[dens[r * N + n, n] * dmarg[r, n] for n in range(N)] for r in range(R)]), refj, facts=facts, lscale=objs.ln_scale(x, Sig))
                ctx.close(op + ".product_rule_lib", lhs, lpj, facts=facts)
                ctx.close(op + ".M", np.asarray(c.M), np.array(Mr), facts=facts)
                ctx.close(op + ".b", np.asarray(c.b), np.array(br), facts=facts)
                ctx.close(op + ".Sigma", np.asarray(c.Sigma), np.array(Sr), facts=facts)
                Sc, Lc = np.asarray(c.Sigma), np.asarray(c.Lambda)
                ctx.close(op + ".SigmaLambda", np.einsum("rij,rjk->rik", Sc, Lc), np.tile(np.eye(len(a))[None], (R, 1, 1)), symptom="incoherent", facts=facts)
                ctx.close(op + ".ln_det_Sigma", np.asarray(c.ln_det_Sigma), np.linalg.slogdet(Sc)[1], symptom="incoherent", facts=facts)
