"""C01 -- product of a measure with a conjugate factor is pointwise multiplication.

2-step state graph per configuration: operand in cache state s  --query-->  operand
(possibly warmer)  --op(factor, update_full)-->  result; reference = sum of the log
functions computed from the constructor arguments."""
import copy

import numpy as np
from jax import numpy as jnp

from .. import alphabet as al
from .. import objs
from .. import refmodel as rm

J = jnp.asarray

PROPERTY = "C01"
LEVEL = "exploration"
TECHNIQUE = "bounded-exhaustive enumeration (kind x factor kind x method x update_full x cache state x batch layout x D x catalogue) on the real code vs NumPy reference model"
RULE = (
    "complete product: left operand kind {GaussianMeasure, GaussianDiagMeasure, GaussianPDF, GaussianDiagPDF} x cache state reached by executing a query "
    "{cold, log_integral_light, integrate('x')} x factor kind {ConjugateFactor, OneRankFactor, LinearFactor, ConstantFactor, GaussianMeasure(cold/warm), GaussianPDF} "
    "x method {multiply, *, hadamard, product()} x update_full x (R1,R2) x D x value index; distinct = (shard, method, update_full, cache state, R1, R2, value index)"
)
ASSUMPTIONS = [
    "real-valued parameters are covered on the finite catalogue + VERIF_SEED-indexed generic reals (cond<=1e3) only; batch components take different catalogue entries but the full Cartesian power over components is not enumerated",
    "sizes bounded: see coverage.bounds",
]
BOUNDS = {
    "quick": dict(R=[1, 2, 3], D=[1, 2, 3], values="2 catalogue + 1 generic"),
    "thorough": dict(R=[1, 2, 3, 4], D=[1, 2, 3, 4], values="5 catalogue + 3 generic"),
}
BUDGET = {"quick": 600, "thorough": 3600}

LEFT = ["GaussianMeasure", "GaussianDiagMeasure", "GaussianPDF", "GaussianDiagPDF"]
FACT = ["ConjugateFactor", "OneRankFactor", "LinearFactor", "ConstantFactor", "GaussianMeasure", "GaussianMeasure.warm", "GaussianPDF", "GaussianDiagMeasure.warm", "GaussianDiagPDF"]
WARM = ["cold", "log_integral_light", "integrate_x"]


def shards(tier, seed):
    out = []
    Ds = BOUNDS[tier]["D"]
    for lk in LEFT:
        for fk in FACT:
            for D in Ds:
                out.append(dict(id="C01/%s/%s/D%d" % (lk, fk, D), left=lk, fact=fk, D=D, cost=D, facts=dict(left=lk, fact=fk, D=D)))
    if tier == "quick":
        # light pass on a larger size: D=4, R in {1,4}
        for lk in ("GaussianMeasure", "GaussianPDF"):
            for fk in FACT:
                out.append(dict(id="C01/%s/%s/D4.big" % (lk, fk), left=lk, fact=fk, D=4, big=True, cost=6, facts=dict(left=lk, fact=fk, D=4)))
    return out


def build_left(kind, D, R, vi, seed):
    diag = "Diag" in kind
    tag = ("c01L", kind, D, R)
    if "PDF" in kind:
        Sig = objs.spd_batch(D, R, vi, seed, tag, diag=diag)
        mu = objs.vec_batch(D, R, vi, seed, tag)
        o = objs.mk_pdf(kind, Sig, mu)
        ps = [rm.moment_to_nat(mu[r], Sig[r]) for r in range(R)]
        return o, (np.array([p[0] for p in ps]), np.array([p[1] for p in ps]), np.array([p[2] for p in ps]))
    Lam = objs.spd_batch(D, R, vi, seed, tag, diag=diag)
    nu = objs.vec_batch(D, R, vi, seed, tag)
    lnb = objs.lnb_batch(R, vi, seed, tag)
    return objs.mk_measure(kind, Lam, nu, lnb), (Lam, nu, lnb)


def warm(o, how):
    if how == "log_integral_light":
        o.log_integral_light()
    elif how == "integrate_x":
        o.integrate("x")


ATTRS = ["Lambda", "nu", "ln_beta", "Sigma", "ln_det_Sigma", "ln_det_Lambda", "mu", "lnZ", "v", "g"]


def snapshot(o):
    return {a: (None if getattr(o, a, None) is None else np.array(getattr(o, a))) for a in ATTRS if hasattr(o, a)}


def unchanged(ctx, site, before, o):
    after = snapshot(o)
    for a, v in before.items():
        if v is None:
            continue  # a cache that becomes populated is not a change of the operand
        w = after.get(a)
        if w is None or w.shape != v.shape or not np.array_equal(v, w):
            ctx.fail(site, "operand_mutated", msg="attribute %s changed by the call" % a)
            return False
    return True


def ref_eval(par, x):
    Lam, nu, lnb = par
    return np.array([rm.quad_ln(x, Lam[r], nu[r], lnb[r]) for r in range(len(Lam))])


def run_shard(shard, ctx):
    tier, seed = shard["tier"], shard["seed"]
    lk, fk0, D = shard["left"], shard["fact"], shard["D"]
    fk = fk0.split(".")[0]
    fwarm = fk0.endswith(".warm")
    Rs = BOUNDS[tier]["R"] if not shard.get("big") else [1, 4]
    vis = ([0, 1, 100, objs.HARD] if tier == "quick" else [0, 1, 2, 3, 4, 100, 101, 102, 103, 104, 105, objs.HARD]) if not shard.get("big") else [0, 100]
    warms = WARM if "PDF" not in lk else ["cold"]
    for R1 in Rs:
        for R2 in Rs:
            N = 3 if 2 in (R1, R2, R1 * R2) and 3 not in (R1, R2) else 2
            if N in (R1, R2):
                N = 4
            x = al.points(N, D, salt=R1 + R2)
            for method in ("multiply", "mul", "hadamard", "product"):
                if method == "hadamard" and not (R1 == R2 or R1 == 1 or R2 == 1):
                    continue
                if method == "product" and R2 != Rs[0]:
                    continue  # product() has no factor operand
                # '*' is NOT assumed to be multiply(update_full=False): the operator overload is code of its own, all layouts run
                for uf in ((False, True) if method in ("multiply", "hadamard") else (None,)):
                    for ws in warms:
                        for vi in vis:
                            desc = dict(R1=R1, R2=R2, method=method, uf=uf, warm=ws, vi=vi)
                            if not ctx.case(desc):
                                continue
                            one(ctx, shard, lk, fk, fwarm, D, R1, R2, method, uf, ws, vi, seed, x)


def one(ctx, shard, lk, fk, fwarm, D, R1, R2, method, uf, ws, vi, seed, x):
    u, upar = build_left(lk, D, R1, vi, seed)
    with ctx.guard("warm." + ws) as g:
        warm(u, ws)
    if not g.ok:
        return
    ub = snapshot(u)
    facts = dict(method=method, update_full=uf, warm=ws, R1=R1, R2=R2, left_has_Sigma=ub.get("Sigma") is not None)
    if method == "product":
        with ctx.guard("product.call", facts) as g:
            res = u.product()
            got = np.asarray(res.evaluate_ln(J(x)))
        if not g.ok:
            return
        ref = np.sum(ref_eval(upar, x), axis=0, keepdims=True)
        ctx.close("product.value", got, ref, facts=facts)
        unchanged(ctx, "product.operand", ub, u)
        with ctx.guard("product.result_mutation", facts):
            res.normalize()
            unchanged(ctx, "product.operand_after_result_mutation", ub, u)
            ctx.close("product.operand_value_after_result_mutation", np.asarray(u.evaluate_ln(J(x))), ref_eval(upar, x), facts=facts)
        if vi == 0 and R1 == 2 and ws == "cold":
            ctx.sample(dict(shard=shard["id"], op="product", R1=R1, Lambda=upar[0], nu=upar[1], ln_beta=upar[2], x=x))
        return
    f, fpar = objs.mk_factor(fk, D, R2, vi, seed, tag=("c01F",))
    if fwarm:
        f.integrate("x")
    fb = snapshot(f)
    fast = bool(uf and ub.get("Sigma") is not None and fk in ("OneRankFactor", "LinearFactor", "ConstantFactor"))
    ctx.count("fastpath_transitions" if fast else "other_transitions")
    site = {"mul": "multiply"}.get(method, method)
    with ctx.guard(site + ".call", facts) as g:
        if method == "multiply":
            res = u.multiply(f, update_full=uf)
        elif method == "mul":
            res = u * f
        else:
            res = u.hadamard(f, update_full=uf)
        got = np.asarray(res.evaluate_ln(J(x)))
        got2 = np.log(np.asarray(res(J(x))))
    if not g.ok:
        return
    lu, lf = ref_eval(upar, x), ref_eval(fpar, x)
    if method in ("multiply", "mul"):
        ref = (lu[:, None, :] + lf[None, :, :]).reshape(R1 * R2, -1)
    else:
        R = max(R1, R2)
        ref = np.broadcast_to(lu, (R, lu.shape[1])) + np.broadcast_to(lf, (R, lf.shape[1]))
    ctx.close(site + ".value", got, ref, facts=facts)
    # u(x) itself legitimately under/overflows double precision when |ln u| > ~700: compare the callable only where it is representable
    rep = (np.abs(ref) < 600.0) if got2.shape == ref.shape else True
    ctx.close(site + ".call_value", np.where(rep, got2, ref) if got2.shape == ref.shape else got2, ref, facts=facts, tol=1e-7)
    # element-wise evaluation: point r for component r
    with ctx.guard(site + ".elementwise", facts):
        Rr = ref.shape[0]
        xe = al.points(Rr, D, salt=R1 + 2 * R2)
        lue, lfe = ref_eval(upar, xe), ref_eval(fpar, xe)
        if method in ("multiply", "mul"):
            refe = np.array([lue[k // R2, k] + lfe[k % R2, k] for k in range(Rr)])
        else:
            refe = np.array([lue[k if R1 > 1 else 0, k] + lfe[k if R2 > 1 else 0, k] for k in range(Rr)])
        ctx.close(site + ".elementwise", np.asarray(res.evaluate_ln(J(xe), element_wise=True)), refe, facts=facts)
    if res.Sigma is not None:
        ctx.count("results_with_covariance")
    # the result is itself a measure: product() over its components evaluates to the product of all of them
    with ctx.guard(site + ".then_product", facts):
        ctx.close(site + ".then_product", np.asarray(res.product().evaluate_ln(J(x))), np.sum(ref, axis=0, keepdims=True), facts=facts)
    if res.R != ref.shape[0]:
        ctx.fail(site + ".batch_size", "malformed_batch", observed=int(res.R), expected=int(ref.shape[0]), facts=facts)
    unchanged(ctx, site + ".left_operand", ub, u)
    unchanged(ctx, site + ".factor_operand", fb, f)
    # ... and stay unchanged when the RESULT is changed in place afterwards (no aliasing of mutable state)
    with ctx.guard(site + ".result_mutation", facts):
        res.normalize()
        res.integrate("x")
        ua = {a: v for a, v in ub.items()}
        unchanged(ctx, site + ".left_operand_after_result_mutation", ua, u)
        ctx.close(site + ".left_value_after_result_mutation", np.asarray(u.evaluate_ln(J(x))), lu, facts=facts)
    if vi == 0 and R1 == 2 and R2 == 2 and ws == "cold" and uf:
        ctx.sample(dict(shard=shard["id"], op=method, update_full=uf, R1=R1, R2=R2, u=dict(Lambda=upar[0], nu=upar[1], ln_beta=upar[2]), f=dict(Lambda=fpar[0], nu=fpar[1], ln_beta=fpar[2]), x=x, expected_ln=ref))
