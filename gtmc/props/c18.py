"""C18 -- JAX transformations and round trips preserve values.

Part A (crossings): every factor / measure / density / linear conditional class, in
cold and warm cache states, crosses every boundary {flatten-unflatten, tree_map,
jit identity, jit argument, jit result, scan carry, to_dict/from_dict}; afterwards it
must evaluate to the same function and expose coherent caches.
Part B (programs): breadth-first enumeration of programs = root constructor . op
sequence . read-out over a finite op alphabet (every class, every integrate key);
every program is run eagerly, under jit, under vmap over its data axis and
differentiated (reverse mode) w.r.t. every continuous input, SPD inputs entering
through an unconstrained square root; gradients vs Richardson central differences
with their own error bar."""
import itertools
import time

import numpy as np
import jax
from jax import numpy as jnp

from gaussian_toolbox import approximate_conditional as ac
from gaussian_toolbox import conditional, factor, measure, pdf
from gaussian_toolbox.experimental import truncated_measure as tmod

from .. import alphabet as al
from .. import objs
from .. import refmodel as rm

J = jnp.asarray

PROPERTY = "C18"
LEVEL = "model_checking"
TECHNIQUE = "explicit enumeration of the program space (root x op sequences up to a depth x read-outs over a finite alphabet) executed on the real code: eager vs jit vs vmap vs grad-vs-finite-differences for every program; exhaustive enumeration of class x cache state x boundary crossings"
RULE = (
    "states = programs (root constructor, op sequence, read-out), transitions = appending one op / closing with a read-out; every program executed eagerly, under jax.jit, under jax.vmap over its data axis "
    "(vs stacked eager runs) and under jax.grad w.r.t. every continuous input (vs Richardson central differences, verdict |g-d_R| <= 1e-6*scale + 4*delta); crossings: class x {cold,warm} x "
    "{flatten/unflatten, tree_map, jit identity, jit argument, jit result, dataclass replace of an own field, scan carry, to_dict/from_dict}. distinct program = (root, ops, read-out); distinct crossing = (class, cache state, boundary)"
)
ASSUMPTIONS = [
    "inputs are differentiated inside their domain only: SPD inputs enter through Sigma = B B' + I (diagonal ones through exp), index arguments are static",
    "finite differences: steps h=1e-4 and h/2, Richardson value, uncertainty delta=|d_R-d_{h/2}|; programs through the heteroscedastic bounds use 1e-4*scale (fixed point iterated to 1e-5 and held by stop_gradient)",
    "truncated measures (non-array members, experimental) are transformed as part of whole programs (constructed inside the traced function), not in the crossing checks; the six approximate conditional classes cross every boundary (R=1, Dx=Dy=Dk=2) and are observed through p(y|x) at points and their moment-matched marginal",
    "one representative shape tuple per class (D=2, R<=2) and one value index + the VERIF_SEED-indexed one; program depth bounded (see coverage.bounds)",
]
BOUNDS = {
    "quick": dict(D=2, depth_all_readouts=0, depth_default_readout=1, depth_reduced=2, hetero_links=["Exp", "CoshM1", "Heaviside", "ReLU"], vi=[0]),
    "thorough": dict(D=2, depth_all_readouts=1, depth_default_readout=2, depth_reduced=3, hetero_links=["Exp", "CoshM1", "Heaviside", "ReLU"], vi=[0, 100]),
}
BUDGET = {"quick": 1200, "thorough": 10800}

D = 2


# ---------------------------------------------------------------------------
# parameters (inputs of every program)
# ---------------------------------------------------------------------------
def make_params(vi, seed):
    if vi == "Z":
        # every vector-like parameter (means, information vectors, offsets, centres, weights, log-constants) EXACTLY zero,
        # matrices as in the first catalogue set: points where norms, square roots and abs() are not differentiable
        P = make_params(0, seed)
        for k in list(P):
            if np.ndim(P[k]) <= 1 or k in ("W1", "KA", "KBm", "KC", "KDm"):
                P[k] = P[k] * 0.0
        P["g1"] = J(np.array(0.3))
        return P
    rng = al.rng_for(seed, "c18", vi)
    g = (lambda *s: rng.uniform(-1, 1, size=s)) if vi >= 100 else None
    P = {}
    for i in range(3):
        P["B%d" % i] = J(g(D, D) * 0.7 if g else al.int_matrix(D, D, salt=i + vi) * 0.3)
        P["v%d" % i] = J(g(D) if g else al.int_vector(D, salt=i + vi) * 0.5)
        P["c%d" % i] = J(g() * 0.5 if g else np.array(al.LNB_CAT[(i + vi) % 3]))
        P["d%d" % i] = J(g(D) * 0.5 if g else al.int_vector(D, salt=i + 3) * 0.2)
    P["g1"] = J(np.array(0.3))
    P["M1"] = J(g(D, D) if g else al.int_matrix(D, D, salt=5 + vi) * 0.4)
    P["b1"] = J(g(D) if g else al.int_vector(D, salt=2) * 0.5)
    P["W1"] = J(g(1, D) if g else al.int_matrix(1, D, salt=4) * 0.5)
    P["w1"] = J(g(1) if g else np.array([0.5]))
    for nm, (k, l) in dict(A=(3, D), Bm=(3, D), C=(2, D), Dm=(2, D)).items():
        P["K" + nm] = J(g(k, l) if g else al.int_matrix(k, l, salt=ord(nm[0]) + vi) * 0.3)
        P["k" + nm] = J(g(k) if g else al.int_vector(k, salt=ord(nm[0])) * 0.3)
    return P


DATA = dict(x=al.points(3, D, salt=1), y=al.points(3, D, salt=4))


def spd(B):
    return B @ B.T + jnp.eye(B.shape[0])


# ---------------------------------------------------------------------------
# program alphabet.  state kinds: 'm' measure-like (GaussianMeasure), 'p' density, 'c' linear conditional, 'f' factor
# ---------------------------------------------------------------------------
def R1(a):
    return a[None]


def _mdiag(d):
    """Diagonal matrix built MULTIPLICATIVELY (as the library itself builds its diagonal precisions): the off-diagonal
    zeros are products with the identity, so a reverse-mode pass through 1/A style shortcuts is exercised."""
    return jnp.exp(d)[:, None] * jnp.eye(d.shape[0])


ROOTS = {
    "GaussianMeasure": ("m", lambda P: measure.GaussianMeasure(Lambda=R1(spd(P["B0"])), nu=R1(P["v0"]), ln_beta=R1(P["c0"]))),
    "GaussianMeasure.R2": ("m", lambda P: measure.GaussianMeasure(Lambda=jnp.stack([spd(P["B0"]), spd(P["B1"])]), nu=jnp.stack([P["v0"], P["v1"]]), ln_beta=jnp.stack([P["c0"], P["c1"]]))),
    "GaussianDiagMeasure": ("m", lambda P: measure.GaussianDiagMeasure(Lambda=R1(_mdiag(P["d0"])), nu=R1(P["v0"]), ln_beta=R1(P["c0"]))),
    "GaussianPDF": ("p", lambda P: pdf.GaussianPDF(Sigma=R1(spd(P["B0"])), mu=R1(P["v0"]))),
    "GaussianPDF.R2": ("p", lambda P: pdf.GaussianPDF(Sigma=jnp.stack([spd(P["B0"]), spd(P["B1"])]), mu=jnp.stack([P["v0"], P["v1"]]))),
    "GaussianDiagPDF": ("p", lambda P: pdf.GaussianDiagPDF(Sigma=R1(_mdiag(P["d0"])), mu=R1(P["v0"]))),
    "ConditionalGaussianPDF": ("c", lambda P: conditional.ConditionalGaussianPDF(M=R1(P["M1"]), b=R1(P["b1"]), Sigma=R1(spd(P["B2"])))),
    "ConditionalGaussianDiagPDF": ("c", lambda P: conditional.ConditionalGaussianDiagPDF(M=R1(P["M1"]), b=R1(P["b1"]), Sigma=R1(_mdiag(P["d2"])))),
    "ConditionalIdentityGaussianPDF": ("c", lambda P: conditional.ConditionalIdentityGaussianPDF(Sigma=R1(spd(P["B2"])))),
    "ConditionalIdentityDiagGaussianPDF": ("c", lambda P: conditional.ConditionalIdentityDiagGaussianPDF(Sigma=R1(_mdiag(P["d2"])))),
    "NNControlGaussianConditional": ("cu", lambda P: conditional.NNControlGaussianConditional(Sigma=R1(spd(P["B2"])), num_cond_dim=D, num_control_dim=2, control_func=lambda u, P=P: jnp.concatenate([(u @ jnp.ones((2, 1))) * P["M1"].reshape(1, -1), u @ jnp.ones((2, D)) * P["b1"][None]], axis=1))),
}


def _fac(kind, P, i=1):
    if kind == "C":
        return factor.ConjugateFactor(Lambda=R1(spd(P["B%d" % i]) - 0.5 * jnp.eye(D)), nu=R1(P["v%d" % i]), ln_beta=R1(P["c%d" % i]))
    if kind == "1":
        return factor.OneRankFactor(v=R1(P["v%d" % i]), g=R1(jnp.exp(P["g1"])), nu=R1(P["d%d" % i]), ln_beta=R1(P["c%d" % i]))
    if kind == "L":
        return factor.LinearFactor(nu=R1(P["v%d" % i]), ln_beta=R1(P["c%d" % i]))
    if kind == "K":
        return factor.ConstantFactor(ln_beta=R1(P["c%d" % i]), num_dim=D)
    if kind == "M":
        return measure.GaussianMeasure(Lambda=R1(spd(P["B%d" % i])), nu=R1(P["v%d" % i]), ln_beta=R1(P["c%d" % i]))
    raise KeyError(kind)


def _prior(P):
    return pdf.GaussianPDF(Sigma=R1(spd(P["B1"])), mu=R1(P["v1"]))


def _normalize(o):
    o.normalize()
    return o


def _warm(o):
    o.integrate("x")
    return o


U = jnp.array([[0.7, -0.2]])

# op name -> (from kind, to kind, fn(obj, P))
OPS = {}
for fk in "C1LKM":
    for uf in (0, 1):
        OPS["mul%s.uf%d" % (fk, uf)] = ("mp", "m", lambda o, P, fk=fk, uf=uf: o.multiply(_fac(fk, P), update_full=bool(uf)))
        OPS["had%s.uf%d" % (fk, uf)] = ("mp", "m", lambda o, P, fk=fk, uf=uf: o.hadamard(_fac(fk, P), update_full=bool(uf)))
OPS["warm"] = ("mp", "same", lambda o, P: _warm(o))
OPS["product"] = ("mp", "m", lambda o, P: o.product())
OPS["slice0"] = ("mp", "same", lambda o, P: o.slice(jnp.array([0])))
OPS["slice-1,0"] = ("mp", "same", lambda o, P: o.slice(jnp.array([-1, 0])))
OPS["get_density"] = ("m", "p", lambda o, P: o.get_density())
OPS["normalize"] = ("m", "m", lambda o, P: _normalize(o))
OPS["marg1"] = ("p", "p1", lambda o, P: o.get_marginal(jnp.array([1])))
OPS["marg10"] = ("p", "p", lambda o, P: o.get_marginal(jnp.array([1, 0])))
OPS["condition_on1"] = ("p", "c1", lambda o, P: o.condition_on(np.array([1])))
OPS["condition_on_explicit"] = ("p", "c1", lambda o, P: o.condition_on_explicit(jnp.array([0]), jnp.array([1])))
OPS["linsum"] = ("p", "p", lambda o, P: o.get_density_of_linear_sum(R1(P["M1"]), R1(P["b1"])))
OPS["linsum1"] = ("p", "p1", lambda o, P: o.get_density_of_linear_sum(R1(P["W1"]), R1(P["w1"])))
OPS["cx"] = ("c", "p", lambda o, P: o.condition_on_x(P["x"]))
OPS["joint"] = ("c", "p4", lambda o, P: o.affine_joint_transformation(_prior(P)))
OPS["margT"] = ("c", "p", lambda o, P: o.affine_marginal_transformation(_prior(P)))
OPS["condT"] = ("c", "c", lambda o, P: o.affine_conditional_transformation(_prior(P)))
OPS["set_y.into_prior"] = ("c", "m", lambda o, P: _prior(P).multiply(o.set_y(P["y"]), update_full=True))
OPS["set_y.product.into_prior"] = ("c", "m", lambda o, P: _prior(P).multiply(o.set_y(P["y"]).product(), update_full=True))
OPS["update_Sigma"] = ("c", "c", lambda o, P: (o.update_Sigma(R1(spd(P["B0"]))), o)[1])
OPS["set_u"] = ("cu", "c", lambda o, P: o.set_control_variable(U))
OPS["cx_u"] = ("cu", "p", lambda o, P: o.condition_on_x_u(P["x"], U))
OPS["joint_u"] = ("cu", "p4", lambda o, P: o.affine_joint_transformation(_prior(P), u=U))
OPS["condT_u"] = ("cu", "c", lambda o, P: o.affine_conditional_transformation(_prior(P), u=U))
OPS["set_y_u.into_prior"] = ("cu", "m", lambda o, P: _prior(P).multiply(o.set_y(P["y"], u=U), update_full=True))
OPS["cx1"] = ("c1", "p1", lambda o, P: o.condition_on_x(P["x"][:, :1]))

INT_KW = {
    "1": lambda P: {}, "x": lambda P: {}, "xx'": lambda P: {},
    "(Ax+a)": lambda P: dict(A_mat=P["KA"], a_vec=P["kA"]),
    "(Ax+a)'(Bx+b)": lambda P: dict(A_mat=P["KA"], a_vec=P["kA"], B_mat=P["KBm"], b_vec=P["kBm"]),
    "(Ax+a)(Bx+b)'": lambda P: dict(A_mat=P["KA"], a_vec=P["kA"], B_mat=P["KC"], b_vec=P["kC"]),
    "(Ax+a)(Bx+b)'(Cx+c)": lambda P: dict(A_mat=P["KA"], a_vec=P["kA"], B_mat=P["KC"], b_vec=P["kC"], C_mat=P["KDm"], c_vec=P["kDm"]),
    "(Ax+a)'(Bx+b)(Cx+c)'": lambda P: dict(A_mat=P["KA"], a_vec=P["kA"], B_mat=P["KBm"], b_vec=P["kBm"], C_mat=P["KC"], c_vec=P["kC"]),
    "x(A'x + a)x'": lambda P: dict(A_mat=P["W1"], a_vec=P["w1"]),
    "xb'xx'": lambda P: dict(b_vec=P["v2"]),
    "(Ax+a)'(Bx+b)(Cx+c)'(Dx+d)": lambda P: dict(A_mat=P["KA"], a_vec=P["kA"], B_mat=P["KBm"], b_vec=P["kBm"], C_mat=P["KC"], c_vec=P["kC"], D_mat=P["KDm"], d_vec=P["kDm"]),
    "(Ax+a)(Bx+b)'(Cx+c)(Dx+d)'": lambda P: dict(A_mat=P["KA"], a_vec=P["kA"], B_mat=P["KC"], b_vec=P["kC"], C_mat=P["KDm"], c_vec=P["kDm"], D_mat=P["KBm"], d_vec=P["kBm"]),
}

# read-outs: name -> (kinds, fn(obj,P) -> array, uses data axis?)
READ = {"default": ("mp", lambda o, P: jnp.concatenate([o.evaluate_ln(P["x"]).ravel(), o.log_integral().ravel()]), True)}
for key in INT_KW:
    READ["integrate[%s]" % key] = ("mp", lambda o, P, key=key: o.integrate(key, **INT_KW[key](P)).ravel(), False)
READ["integrate[log u]"] = ("mp", lambda o, P: o.integrate("log u(x)", factor=_fac("C", P, 2)).ravel(), False)
READ["evaluate"] = ("mp", lambda o, P: o.evaluate(P["x"]).ravel(), True)
READ["evaluate_elementwise"] = ("mp", lambda o, P: o.evaluate_ln(P["x"][: o.R], element_wise=True).ravel(), False)
READ["entropy"] = ("p", lambda o, P: o.entropy().ravel(), False)
READ["kl"] = ("p", lambda o, P: jnp.concatenate([o.kl_divergence(_prior(P)).ravel(), _prior(P).kl_divergence(o).ravel()]), False)
READ["default1"] = ("p1", lambda o, P: jnp.concatenate([o.evaluate_ln(P["x"][:, :1]).ravel(), o.entropy().ravel()]), True)
READ["default4"] = ("p4", lambda o, P: jnp.concatenate([o.evaluate_ln(jnp.concatenate([P["x"], P["y"]], axis=1)).ravel(), o.entropy().ravel()]), True)
READ["cond.default"] = ("c", lambda o, P: o.condition_on_x(P["x"]).evaluate_ln(P["y"]).ravel(), True)
READ["cond.set_y"] = ("c", lambda o, P: o.set_y(P["y"][:1]).evaluate_ln(P["x"]).ravel(), True)
READ["cond.integrate_log_conditional"] = ("c", lambda o, P: o.integrate_log_conditional(pdf.GaussianPDF(Sigma=R1(jnp.kron(spd(P["B0"]), jnp.eye(2)) + 0.1), mu=R1(jnp.concatenate([P["v0"], P["v1"]])))).ravel(), False)
READ["cond.integrate_log_conditional_y"] = ("c", lambda o, P: o.integrate_log_conditional_y(_prior(P), y=P["y"][:1]).ravel(), False)
READ["cond.integrate_log_conditional_y.callable"] = ("c", lambda o, P: o.integrate_log_conditional_y(_prior(P))(P["y"][:1]).ravel(), False)
READ["cond.entropy_mi"] = ("c", lambda o, P: jnp.concatenate([o.conditional_entropy(_prior(P)).ravel(), o.mutual_information(_prior(P)).ravel()]), False)
READ["cond1.default"] = ("c1", lambda o, P: o.condition_on_x(P["x"][:, :1]).evaluate_ln(P["y"][:, :1]).ravel(), True)
READ["condu.default"] = ("cu", lambda o, P: o.condition_on_x_u(P["x"], U).evaluate_ln(P["y"]).ravel(), True)
READ["condu.integrate_log_conditional"] = ("cu", lambda o, P: o.integrate_log_conditional(pdf.GaussianPDF(Sigma=R1(jnp.kron(spd(P["B0"]), jnp.eye(2)) + 0.1), mu=R1(jnp.concatenate([P["v0"], P["v1"]]))), u=U).ravel(), False)
READ["condu.entropy"] = ("cu", lambda o, P: o.conditional_entropy(_prior(P), u=U).ravel(), False)


def kind_after(kind, to):
    return kind if to == "same" else to


def enabled_ops(kind):
    return [nm for nm, (frm, to, fn) in OPS.items() if kind in _kinds(frm)]


def _kinds(spec):
    # 'mp' -> {'m','p'}; multi-letter kinds are single tokens
    return {"mp": {"m", "p"}, "m": {"m"}, "p": {"p"}, "c": {"c"}, "cu": {"cu"}, "c1": {"c1"}, "p1": {"p1"}, "p4": {"p4"}}[spec]


def readouts_for(kind):
    return [nm for nm, (kinds, fn, data) in READ.items() if kind in _kinds(kinds)]


def default_readout(kind):
    return {"m": "default", "p": "default", "p1": "default1", "p4": "default4", "c": "cond.default", "c1": "cond1.default", "cu": "condu.default"}[kind]


REDUCED_OPS = ["mulC.uf1", "mul1.uf1", "mulL.uf1", "hadC.uf0", "had1.uf1", "product", "slice0", "get_density", "warm", "marg10", "condition_on1", "linsum", "cx", "joint", "condT", "set_y.into_prior"]


def enumerate_programs(tier):
    """BFS over op sequences; -> list of (root, ops tuple, readout).

    depth <= depth_all_readouts : every read-out of the reached kind;
    depth <= depth_default_readout : the default read-out, full op alphabet (depth>=2: from the three general roots);
    depth <= depth_reduced : the default read-out, reduced op alphabet, from the three general roots."""
    B = BOUNDS[tier]
    progs = []
    frontier = [(r, (), ROOTS[r][0]) for r in ROOTS]
    depth = 0
    general = ("GaussianMeasure", "GaussianPDF", "ConditionalGaussianPDF")
    while True:
        for (root, ops, kind) in frontier:
            rds = readouts_for(kind) if depth <= B["depth_all_readouts"] else [default_readout(kind)]
            if root.endswith(".R2") and depth >= 1:
                rds = [default_readout(kind)]
            for rd in rds:
                progs.append((root, ops, rd))
        if depth >= B["depth_reduced"]:
            break
        nxt = []
        for (root, ops, kind) in frontier:
            if depth >= 1 and root not in general:
                continue
            for nm in enabled_ops(kind):
                if depth >= B["depth_default_readout"] and (nm not in REDUCED_OPS or any(o not in REDUCED_OPS for o in ops)):
                    continue
                if ops and nm == "warm" and ops[-1] == "warm":
                    continue
                nxt.append((root, ops + (nm,), kind_after(kind, OPS[nm][1])))
        frontier = nxt
        depth += 1
    return progs


def build_program(root, ops, rd):
    rfn = ROOTS[root][1]
    ofns = [OPS[o][2] for o in ops]
    rdfn = READ[rd][1]

    def f(P):
        o = rfn(P)
        for fn in ofns:
            o = fn(o, P)
        return rdfn(o, P)

    return f


# whole-program templates for classes that do not cross boundaries as objects
def _rbf(P):
    return ac.LRBFGaussianConditional(M=R1(jnp.concatenate([P["M1"], P["KC"].T[:, :2] * 0.5], axis=1)), b=R1(P["b1"]), mu=P["KC"] * 0.5, length_scale=jnp.exp(P["KDm"] * 0.3), Sigma=R1(spd(P["B2"])))


def _sem(P):
    return ac.LSEMGaussianConditional(M=R1(jnp.concatenate([P["M1"], P["KC"].T[:, :2] * 0.5], axis=1)), b=R1(P["b1"]), W=jnp.concatenate([P["kC"][:, None], P["KC"]], axis=1) * 0.7, Sigma=R1(spd(P["B2"])))


def _het(link):
    cls = {"Exp": ac.HeteroscedasticExpConditional, "CoshM1": ac.HeteroscedasticCoshM1Conditional, "Heaviside": ac.HeteroscedasticHeavisideConditional, "ReLU": ac.HeteroscedasticReLUConditional}[link]
    return lambda P: cls(M=R1(P["M1"]), b=R1(P["b1"]), A=R1(P["B2"] + jnp.eye(D)), W=jnp.concatenate([P["w1"][:, None] * 0.6, P["W1"] * 0.6], axis=1))


def _trunc(P, cls):
    m = measure.GaussianMeasure(Lambda=jnp.exp(P["c0"]).reshape(1, 1, 1), nu=P["c1"].reshape(1, 1), ln_beta=P["c2"].reshape(1))
    return cls(measure=m, lower_limit=P["w1"].reshape(1, 1) - 1.0, upper_limit=P["w1"].reshape(1, 1) + 1.5)


def _rbf0(P):
    # the first kernel centre exactly at the origin (a symmetric grid of centres contains 0): norms / square roots of the
    # centre are not differentiable there
    return ac.LRBFGaussianConditional(M=R1(jnp.concatenate([P["M1"], P["KC"].T[:, :2] * 0.5], axis=1)), b=R1(P["b1"]), mu=P["KC"] * jnp.array([[0.0], [0.5]]), length_scale=jnp.exp(P["KDm"] * 0.3), Sigma=R1(spd(P["B2"])))


def _sem0(P):
    # zero offsets and one zero weight vector
    return ac.LSEMGaussianConditional(M=R1(jnp.concatenate([P["M1"], P["KC"].T[:, :2] * 0.5], axis=1)), b=R1(P["b1"]), W=jnp.concatenate([P["kC"][:, None] * 0.0, P["KC"] * jnp.array([[0.0], [0.7]])], axis=1), Sigma=R1(spd(P["B2"])))


TEMPLATES = {}
TEMPLATES["LRBF.origin_centre.marginal"] = (lambda P: _rbf0(P).affine_marginal_transformation(_prior(P)).evaluate_ln(P["y"]).ravel(), True, 1e-6)
TEMPLATES["LRBF.origin_centre.condition_on_x"] = (lambda P: _rbf0(P).condition_on_x(P["x"]).evaluate_ln(P["y"]).ravel(), True, 1e-6)
TEMPLATES["LSEM.zero_offsets.marginal"] = (lambda P: _sem0(P).affine_marginal_transformation(_prior(P)).evaluate_ln(P["y"]).ravel(), True, 1e-6)
for nm, mk in (("LRBF", _rbf), ("LSEM", _sem)):
    TEMPLATES[nm + ".condition_on_x"] = (lambda P, mk=mk: mk(P).condition_on_x(P["x"]).evaluate_ln(P["y"]).ravel(), True, 1e-6)
    TEMPLATES[nm + ".marginal"] = (lambda P, mk=mk: mk(P).affine_marginal_transformation(_prior(P)).evaluate_ln(P["y"]).ravel(), True, 1e-6)
    TEMPLATES[nm + ".joint"] = (lambda P, mk=mk: mk(P).affine_joint_transformation(_prior(P)).entropy().ravel(), False, 1e-6)
    TEMPLATES[nm + ".conditional"] = (lambda P, mk=mk: mk(P).affine_conditional_transformation(_prior(P)).condition_on_x(P["y"]).evaluate_ln(P["x"]).ravel(), True, 1e-6)
    TEMPLATES[nm + ".integrate_log_conditional"] = (lambda P, mk=mk: mk(P).integrate_log_conditional(pdf.GaussianPDF(Sigma=R1(jnp.kron(spd(P["B0"]), jnp.eye(2)) + 0.1), mu=R1(jnp.concatenate([P["v0"], P["v1"]])))).ravel(), False, 1e-6)
    TEMPLATES[nm + ".integrate_log_conditional_y"] = (lambda P, mk=mk: mk(P).integrate_log_conditional_y(_prior(P), y=P["y"][:1]).ravel(), False, 1e-6)
for link in ("Exp", "CoshM1", "Heaviside", "ReLU"):
    TEMPLATES["Hetero%s.condition_on_x" % link] = (lambda P, link=link: _het(link)(P).condition_on_x(P["x"]).evaluate_ln(P["y"]).ravel(), True, 1e-6)
    TEMPLATES["Hetero%s.marginal" % link] = (lambda P, link=link: _het(link)(P).affine_marginal_transformation(_prior(P)).evaluate_ln(P["y"]).ravel(), True, 1e-6)
    TEMPLATES["Hetero%s.bound" % link] = (lambda P, link=link: _het(link)(P).integrate_log_conditional_y(_prior(P), y=P["y"][:1]).ravel(), False, 1e-4)
for k in (0, 1, 3):
    TEMPLATES["Truncated.integrate[x**%d]" % k] = (lambda P, k=k: _trunc(P, tmod.TruncatedGaussianMeasure).integrate("x**k", k=k).ravel(), False, 1e-6)
TEMPLATES["Truncated.integrate[x**2]"] = (lambda P: _trunc(P, tmod.TruncatedGaussianMeasure).integrate("x**2").ravel(), False, 1e-6)
TEMPLATES["Truncated.call"] = (lambda P: _trunc(P, tmod.TruncatedGaussianMeasure)(P["x"][:, :1]).ravel(), True, 1e-6)
TEMPLATES["TruncatedPDF.mean_var"] = (lambda P: jnp.concatenate([_trunc(P, tmod.TruncatedGaussianPDF).get_mean().ravel(), _trunc(P, tmod.TruncatedGaussianPDF).get_variance().ravel()]), False, 1e-6)
TEMPLATES["Truncated.onesided"] = (lambda P: tmod.TruncatedGaussianMeasure(measure=measure.GaussianMeasure(Lambda=jnp.exp(P["c0"]).reshape(1, 1, 1), nu=P["c1"].reshape(1, 1)), lower_limit=P["w1"].reshape(1, 1)).integrate("x").ravel(), False, 1e-6)
# upper limit only (lower limit -inf, implicit and explicit), for a measure and a density built from a covariance
TEMPLATES["Truncated.upper_only"] = (lambda P: tmod.TruncatedGaussianMeasure(measure=measure.GaussianMeasure(Lambda=jnp.exp(P["c0"]).reshape(1, 1, 1), nu=P["c1"].reshape(1, 1)), upper_limit=P["w1"].reshape(1, 1)).integrate("x").ravel(), False, 1e-6)
TEMPLATES["Truncated.upper_only_explicit_inf"] = (lambda P: tmod.TruncatedGaussianMeasure(measure=measure.GaussianMeasure(Lambda=jnp.exp(P["c0"]).reshape(1, 1, 1), nu=P["c1"].reshape(1, 1)), lower_limit=-jnp.inf, upper_limit=P["w1"].reshape(1, 1)).integrate("x**2").ravel(), False, 1e-6)
TEMPLATES["TruncatedPDF.upper_only"] = (lambda P: (lambda t: jnp.concatenate([t.get_mean().ravel(), t.get_variance().ravel()]))(tmod.TruncatedGaussianPDF(measure=pdf.GaussianPDF(Sigma=jnp.exp(P["c0"]).reshape(1, 1, 1), mu=P["c1"].reshape(1, 1)), upper_limit=P["w1"].reshape(1, 1))), False, 1e-6)
TEMPLATES["TruncatedPDF.lower_only"] = (lambda P: (lambda t: jnp.concatenate([t.get_mean().ravel(), t.get_variance().ravel()]))(tmod.TruncatedGaussianPDF(measure=pdf.GaussianPDF(Sigma=jnp.exp(P["c0"]).reshape(1, 1, 1), mu=P["c1"].reshape(1, 1)), lower_limit=P["w1"].reshape(1, 1))), False, 1e-6)


def _kalman(P, use_scan):
    """The notebook's filter: density as the carry of lax.scan (or of a Python loop), conditionals closed over."""
    trans = conditional.ConditionalGaussianPDF(M=R1(P["M1"] * 0.5), b=R1(P["b1"]), Sigma=R1(spd(P["B2"])))
    emis = conditional.ConditionalGaussianPDF(M=R1(P["W1"]), b=R1(P["w1"]), Sigma=R1(jnp.exp(P["c0"]).reshape(1, 1)))
    obs = P["y"][:, :1]

    def step(carry, y_t):
        filt, ll = carry
        pred = trans.affine_marginal_transformation(filt)
        ll = ll + emis.affine_marginal_transformation(pred).evaluate_ln(y_t[None])[0, 0]
        filt = emis.affine_conditional_transformation(pred).condition_on_x(y_t[None])
        return (filt, ll), filt.mu[0]

    carry = (_prior(P), jnp.zeros(()))
    if use_scan:
        (filt, ll), mus = jax.lax.scan(step, carry, obs)
    else:
        mus = []
        for t in range(obs.shape[0]):
            carry, m = step(carry, obs[t])
            mus.append(m)
        (filt, ll), mus = carry, jnp.stack(mus)
    return jnp.concatenate([mus.ravel(), filt.Sigma.ravel(), ll[None]])


def _bayes(P, use_scan):
    """Recursive Bayesian updating through likelihood FACTORS: the carry starts as a constructor-built prior and is replaced
    by prior.hadamard(likelihood factor).get_density() in every step (the carry must keep its pytree structure)."""
    emis = conditional.ConditionalGaussianPDF(M=R1(P["W1"]), b=R1(P["w1"]), Sigma=R1(jnp.exp(P["c0"]).reshape(1, 1)))
    obs = P["y"][:, :1]

    def step(carry, y_t):
        post, ll = carry
        m = post.hadamard(emis.set_y(y_t[None]), update_full=True)
        ll = ll + m.log_integral()[0]
        post = m.get_density()
        return (post, ll), post.mu[0]

    carry = (_prior(P), jnp.zeros(()))
    if use_scan:
        (post, ll), mus = jax.lax.scan(step, carry, obs)
    else:
        mus = []
        for t in range(obs.shape[0]):
            carry, mm = step(carry, obs[t])
            mus.append(mm)
        (post, ll), mus = carry, jnp.stack(mus)
    return jnp.concatenate([mus.ravel(), post.Sigma.ravel(), ll[None]])


TEMPLATES["BayesFactorUpdate.python_loop"] = (lambda P: _bayes(P, False), False, 1e-6)
TEMPLATES["BayesFactorUpdate.lax_scan"] = (lambda P: _bayes(P, True), False, 1e-6)
TEMPLATES["Kalman.python_loop"] = (lambda P: _kalman(P, False), False, 1e-6)
TEMPLATES["Kalman.lax_scan"] = (lambda P: _kalman(P, True), False, 1e-6)


# ---------------------------------------------------------------------------
# vmap over the data axis vs the SAME program run eagerly on the whole batch (row-wise programs with a known layout)
def _condR2(P):
    return conditional.ConditionalGaussianPDF(M=jnp.stack([P["M1"], P["M1"].T * 0.5 + 0.2]), b=jnp.stack([P["b1"], P["v2"]]), Sigma=jnp.stack([spd(P["B2"]), 2.0 * spd(P["B0"])]))


def _measR2(P):
    return ROOTS["GaussianMeasure.R2"][1](P)


def _pdfR2(P):
    return ROOTS["GaussianPDF.R2"][1](P)


_X0 = J(al.points(2, D, salt=7))

# name -> (f(P, X, Y) on the whole batch, rearrange(full, N) -> [N, ...] matching vmap of f on single rows)
VBATCH = {
    "measureR2.evaluate_ln": (lambda P, X, Y: _measR2(P).evaluate_ln(X), lambda a, N: a.T),
    "pdfR2.mulC.evaluate_ln": (lambda P, X, Y: _pdfR2(P).multiply(_fac("C", P), update_full=True).evaluate_ln(X), lambda a, N: a.T),
    "condR2.cx.evaluate_ln": (lambda P, X, Y: _condR2(P).condition_on_x(X).evaluate_ln(_X0), lambda a, N: a.reshape(2, N, -1).transpose(1, 0, 2)),
    "condR2.cx.entropy": (lambda P, X, Y: _condR2(P).condition_on_x(X).entropy(), lambda a, N: a.reshape(2, N).T),
    "condR2.cx.log_integral_of_product": (lambda P, X, Y: _condR2(P).condition_on_x(X).multiply(_fac("1", P), update_full=True).log_integral(), lambda a, N: a.reshape(2, N).T),
    "posteriorR2.cx.evaluate_ln": (lambda P, X, Y: ROOTS["ConditionalGaussianPDF"][1](P).affine_conditional_transformation(_pdfR2(P)).condition_on_x(Y).evaluate_ln(_X0), lambda a, N: a.reshape(2, N, -1).transpose(1, 0, 2)),
    "posteriorR2.cx.entropy_kl": (lambda P, X, Y: (lambda q: q.entropy() + q.kl_divergence(_prior(P)))(ROOTS["ConditionalGaussianPDF"][1](P).affine_conditional_transformation(_pdfR2(P)).condition_on_x(Y)), lambda a, N: a.reshape(2, N).T),
    "cond.set_y.evaluate_ln": (lambda P, X, Y: ROOTS["ConditionalGaussianPDF"][1](P).set_y(Y).evaluate_ln(_X0), lambda a, N: a),
    "cond.set_y.into_prior.log_integral": (lambda P, X, Y: _prior(P).multiply(ROOTS["ConditionalGaussianPDF"][1](P).set_y(Y), update_full=True).log_integral(), lambda a, N: a),
    "identity.cx.evaluate_ln": (lambda P, X, Y: ROOTS["ConditionalIdentityGaussianPDF"][1](P).condition_on_x(X).evaluate_ln(_X0), lambda a, N: a),
    "condDiagR2.joint.cx": (lambda P, X, Y: _condR2(P).affine_joint_transformation(_prior(P)).condition_on(np.array([2, 3])).condition_on_x(Y).evaluate_ln(_X0), lambda a, N: a.reshape(2, N, -1).transpose(1, 0, 2)),
    "LRBF.cx.evaluate_ln": (lambda P, X, Y: _rbf(P).condition_on_x(X).evaluate_ln(_X0), lambda a, N: a),
    "LSEM.cx.evaluate_ln": (lambda P, X, Y: _sem(P).condition_on_x(X).evaluate_ln(_X0), lambda a, N: a),
    "HeteroExp.cx.evaluate_ln": (lambda P, X, Y: _het("Exp")(P).condition_on_x(X).evaluate_ln(_X0), lambda a, N: a),
    "HeteroReLU.cx.entropy": (lambda P, X, Y: _het("ReLU")(P).condition_on_x(X).entropy(), lambda a, N: a),
}


def run_vbatch(shard, ctx):
    P = make_params(shard["vi"], shard["seed"])
    X, Y = J(DATA["x"]), J(DATA["y"])
    N = X.shape[0]
    for name, (f, rearr) in VBATCH.items():
        if not ctx.case(dict(vbatch=name)):
            continue
        facts = dict(template=name)
        ctx.count("states")
        ctx.count("transitions")
        with ctx.guard("vbatch.eager", facts) as g:
            full = np.asarray(f(P, X, Y))
        if not g.ok:
            continue
        ctx.count("traces_validated_against_impl")
        with ctx.guard("vbatch.jit", facts) as g:
            ctx.close("vbatch.jit", np.asarray(jax.jit(lambda P_: f(P_, X, Y))(P)), full, facts=facts, symptom="jit_differs")
        with ctx.guard("vbatch.vmap", facts) as g:
            vm = np.asarray(jax.vmap(lambda xr, yr: f(P, xr[None], yr[None]))(X, Y))
            ref = np.asarray(rearr(full, N))
            ctx.close("vbatch.vmap_vs_whole_batch", vm.reshape(ref.shape), ref, facts=facts, symptom="vmap_differs")
    ctx.sample(dict(shard=shard["id"], templates=sorted(VBATCH)))


def shards(tier, seed):
    out = []
    progs = enumerate_programs(tier)
    nsh = 48 if tier == "quick" else 160
    for vi in BOUNDS[tier]["vi"]:
        for k in range(nsh):
            out.append(dict(id="C18/programs/v%d/part%03d" % (vi, k), part="programs", vi=vi, k=k, n=nsh, cost=3, facts={}))
        tl = [t for t in TEMPLATES if not t.startswith("Hetero") or t.split(".")[0][6:] in BOUNDS[tier]["hetero_links"] or not t.endswith("bound")]
        for t in tl:
            out.append(dict(id="C18/template/v%d/%s" % (vi, t), part="template", vi=vi, name=t, cost=30 if t.endswith("bound") else 4, facts=dict(template=t)))
    # the all-zero parameter point, for the templates whose functions are smooth there (the kinked links are not)
    for t in TEMPLATES:
        if "Heaviside" in t or "ReLU" in t or t.endswith("bound") or t == "Truncated.call":  # (indicator of the interval: a data point sits on a limit)
            continue
        out.append(dict(id="C18/template/vZ/%s" % t, part="template", vi="Z", name=t, cost=4, facts=dict(template=t, point="zero")))
    for cls in CROSS_CLASSES:
        out.append(dict(id="C18/crossing/%s" % cls, part="crossing", cls=cls, cost=3, facts=dict(cls=cls)))
    for vi in sorted(set(BOUNDS[tier]["vi"]) | {100}):
        out.append(dict(id="C18/vbatch/v%d" % vi, part="vbatch", vi=vi, cost=5, facts={}))
    return out


def finalize(results, tier, seed):
    return dict(programs_enumerated=len(enumerate_programs(tier)), templates=len(TEMPLATES))


def run_shard(shard, ctx):
    if shard["part"] == "crossing":
        return run_crossing(shard, ctx)
    if shard["part"] == "vbatch":
        return run_vbatch(shard, ctx)
    P = make_params(shard["vi"], shard["seed"])
    if shard["part"] == "template":
        f, data, gtol = TEMPLATES[shard["name"]]
        if ctx.case(dict(template=shard["name"])):
            check_program(ctx, shard["name"], f, P, data, gtol, dict(template=shard["name"]))
            if shard["name"] in ("Kalman.lax_scan", "BayesFactorUpdate.lax_scan"):
                full = dict(P)
                full["x"], full["y"] = J(DATA["x"]), J(DATA["y"])
                fn = _kalman if shard["name"].startswith("Kalman") else _bayes
                with ctx.guard("program.scan_vs_loop", dict(template=shard["name"])):
                    ctx.close("program.scan_vs_loop", np.asarray(fn(full, True)), np.asarray(fn(full, False)), facts=dict(template=shard["name"]), symptom="scan_differs")
            ctx.count("states")
            ctx.count("transitions")
        return
    progs = enumerate_programs(shard["tier"])
    mine = [p for i, p in enumerate(progs) if i % shard["n"] == shard["k"]]
    deadline = min(time.time() + BUDGET[shard["tier"]] * 0.8, shard.get("deadline", 1e18))
    for (root, ops, rd) in mine:
        if time.time() > deadline:
            ctx.count("capped")
            break
        if not ctx.case(dict(root=root, ops=list(ops), readout=rd)):
            continue
        ctx.count("states")
        ctx.count("transitions", len(ops) + 1)
        f = build_program(root, ops, rd)
        check_program(ctx, "%s|%s|%s" % (root, ">".join(ops), rd), f, P, READ[rd][2], 1e-6, dict(root=root, ops=">".join(ops), readout=rd, depth=len(ops)))
    if mine:
        ctx.sample(dict(shard=shard["id"], example_program=dict(root=mine[0][0], ops=list(mine[0][1]), readout=mine[0][2]), inputs=sorted(P.keys())))


def check_program(ctx, name, f, P, has_data, gtol, facts):
    full = dict(P)
    full["x"] = J(DATA["x"])
    full["y"] = J(DATA["y"])
    with ctx.guard("program.eager", facts) as g:
        eager = np.asarray(f(full))
    if not g.ok:
        return
    if not np.all(np.isfinite(eager)):
        ctx.fail("program.eager", "nonfinite", observed=eager, facts=facts)
        return
    scale = float(max(1.0, np.max(np.abs(eager))))
    ctx.count("traces_validated_against_impl")
    # ---- jit ------------------------------------------------------------------
    with ctx.guard("program.jit", facts) as g:
        fj = jax.jit(f)
        got = np.asarray(fj(full))
    if g.ok:
        ctx.close("program.jit", got, eager, scale=scale, facts=facts, symptom="jit_differs")
    jit_ok = g.ok
    # ---- vmap over the data axis ----------------------------------------------------
    if has_data:
        def f1(xr, yr):
            Q = dict(full)
            Q["x"] = xr[None]
            Q["y"] = yr[None]
            return f(Q)

        with ctx.guard("program.vmap", facts) as g:
            vm = np.asarray(jax.vmap(f1)(full["x"], full["y"]))
            st = np.stack([np.asarray(f1(full["x"][i], full["y"][i])) for i in range(full["x"].shape[0])])
        if g.ok:
            ctx.close("program.vmap", vm, st, scale=scale, facts=facts, symptom="vmap_differs")
    # ---- grad vs finite differences -----------------------------------------------------
    wts = J(np.cos(np.arange(eager.size) * 0.7 + 0.3))
    names = sorted(k for k in P) + (["x", "y"] if has_data else [])
    P = dict(P)
    P["x"], P["y"] = full["x"], full["y"]

    def gfun(Pd):
        Q = dict(full)
        Q.update(Pd)
        return jnp.sum(f(Q) * wts)

    with ctx.guard("program.grad", facts) as g:
        val, grad = jax.jit(jax.value_and_grad(gfun))({k: P[k] for k in names})
        grad = {k: np.asarray(v) for k, v in grad.items()}
    if not g.ok:
        return
    # the same gradient computed eagerly (op by op): XLA may simplify away a 0*inf that the eager backward pass hits
    with ctx.guard("program.grad_eager", facts) as g:
        ge = jax.grad(gfun)({k: P[k] for k in names})
        for k in names:
            gk = np.asarray(ge[k])
            if not np.all(np.isfinite(gk)):
                ctx.fail("program.grad_eager", "nonfinite", observed=gk, facts=dict(facts, param=k), msg="eager reverse-mode gradient is not finite")
                break
            if not ctx.close("program.grad_eager_vs_jit", gk, grad[k], scale=float(max(1.0, np.max(np.abs(grad[k])))), tol=1e-7, facts=dict(facts, param=k), symptom="grad_differs"):
                break
    gj = jax.jit(gfun)
    base = {k: np.asarray(P[k], float) for k in names}
    h = 1e-4
    worst = None
    for k in names:
        if not np.any(grad[k] != 0) and k not in ("B0", "v0"):
            # parameter not used by this program: one probe to confirm the derivative is zero
            idxs = [tuple(0 for _ in base[k].shape)]
        else:
            idxs = list(np.ndindex(*base[k].shape)) if base[k].shape else [()]
        for idx in idxs:
            def at(delta):
                Q = {kk: J(vv) for kk, vv in base.items()}
                a = base[k].copy()
                a[idx] += delta
                Q[k] = J(a)
                return float(gj(Q))

            d1 = (at(h) - at(-h)) / (2 * h)
            d2 = (at(h / 2) - at(-h / 2)) / h
            dR = (4 * d2 - d1) / 3.0
            delta = abs(dR - d2)
            gv = float(grad[k][idx])
            ctx.count("gradient_entries")
            if not np.isfinite(gv):
                ctx.fail("program.grad", "nonfinite", observed=gv, facts=dict(facts, param=k, index=str(idx)))
                return
            err = abs(gv - dR)
            bound = gtol * max(1.0, abs(dR), abs(float(val))) + 4 * delta
            if err > bound:
                if worst is None or err / bound > worst[0]:
                    worst = (err / bound, k, idx, gv, dR, delta, bound)
    ctx.count("comparisons")
    if worst is not None:
        _, k, idx, gv, dR, delta, bound = worst
        ctx.fail("program.grad", "grad_differs", value=gv - dR, observed=gv, expected=dR, facts=dict(facts, param=k, index=str(idx)), msg="FD uncertainty=%.2e bound=%.2e" % (delta, bound))


# ---------------------------------------------------------------------------
# crossings
# ---------------------------------------------------------------------------
def _cross_objects(cls, vi, seed):
    """-> list of (state label, builder) for class cls."""
    def meas(kind, R):
        diag = "Diag" in kind
        if "PDF" in kind:
            return objs.mk_pdf(kind, objs.spd_batch(D, R, vi, seed, ("x18", kind), diag=diag), objs.vec_batch(D, R, vi, seed, ("x18", kind)))
        return objs.mk_measure(kind, objs.spd_batch(D, R, vi, seed, ("x18", kind), diag=diag), objs.vec_batch(D, R, vi, seed, ("x18", kind)), objs.lnb_batch(R, vi, seed, ("x18", kind)))

    out = []
    if cls in ("GaussianMeasure", "GaussianDiagMeasure", "GaussianPDF", "GaussianDiagPDF"):
        for R in (1, 2):
            out.append(("cold.R%d" % R, lambda R=R: meas(cls, R)))
            out.append(("warm.R%d" % R, lambda R=R: _warm(meas(cls, R))))
            if "PDF" not in cls:
                out.append(("light.R%d" % R, lambda R=R: (lambda o: (o.log_integral_light(), o)[1])(meas(cls, R))))
                out.append(("normalized.R%d" % R, lambda R=R: _normalize(meas(cls, R))))
            else:
                # densities reached from elsewhere: updated in place / sliced with negative indices
                def upd(R=R):
                    o = meas(cls, R)
                    o.integrate("xx'")
                    diag = "Diag" in cls
                    d = objs.mk_pdf(cls, objs.spd_batch(D, 1, vi + 2, seed, ("x18u", cls), diag=diag), objs.vec_batch(D, 1, vi + 2, seed, ("x18u", cls)))
                    o.update(jnp.array([R - 1]), d)
                    return o
                out.append(("updated.R%d" % R, upd))
                out.append(("sliced_neg.R%d" % R, lambda R=R: meas(cls, R + 1).slice(jnp.array(list(range(-R, 0))))))
    elif cls in ("ConjugateFactor", "OneRankFactor", "LinearFactor", "ConstantFactor"):
        for R in (1, 2):
            out.append(("R%d" % R, lambda R=R: objs.mk_factor(cls, D, R, vi, seed, tag=("x18f",))[0]))
    elif cls in APPROX_CLASSES:
        Dk = 2

        def mka():
            M = objs.mat_batch(D, D + (Dk if cls[0] == "L" else 0), 1, vi, seed, ("x18a", cls)) * 0.5
            b = objs.vecn_batch(D, 1, vi, seed, ("x18a", cls)) * 0.5
            W = np.array([np.concatenate([[0.4 * (k + 1) * (-1) ** k], al.int_vector(D, salt=k + 1 + vi) * 0.4]) for k in range(Dk)])
            if cls == "LRBFGaussianConditional":
                return ac.LRBFGaussianConditional(M=J(M), b=J(b), mu=J(W[:, 1:]), length_scale=J(0.5 + np.abs(W[:, 1:])), Sigma=J(objs.spd_batch(D, 1, vi, seed, ("x18a", cls))))
            if cls == "LSEMGaussianConditional":
                return ac.LSEMGaussianConditional(M=J(M), b=J(b), W=J(W), Sigma=J(objs.spd_batch(D, 1, vi, seed, ("x18a", cls))))
            return getattr(ac, cls)(M=J(M), b=J(b), A=J(al.int_matrix(D, D, salt=1 + vi)[None] * 0.5), W=J(W))
        out.append(("R1", mka))
    else:
        kind = {"ConditionalGaussianPDF": "full", "ConditionalGaussianDiagPDF": "diag", "ConditionalIdentityGaussianPDF": "identity", "ConditionalIdentityDiagGaussianPDF": "identity_diag", "NNControlGaussianConditional": "nncontrol"}[cls]
        for R in ((1, 2) if kind != "nncontrol" else (1,)):
            def mk(R=R):
                M = objs.mat_batch(D, D, R, vi, seed, ("x18c", kind))
                b = objs.vecn_batch(D, R, vi, seed, ("x18c", kind))
                Sy = objs.spd_batch(D, R, vi, seed, ("x18c", kind), diag="diag" in kind)
                return objs.mk_cond(kind, M, b, Sy)[0]
            out.append(("R%d" % R, mk))
    return out


# the approximate conditional classes are conditional classes too ("pytree round trips of every ... conditional class")
APPROX_CLASSES = ["LRBFGaussianConditional", "LSEMGaussianConditional", "HeteroscedasticExpConditional", "HeteroscedasticCoshM1Conditional", "HeteroscedasticHeavisideConditional", "HeteroscedasticReLUConditional"]
CROSS_CLASSES = APPROX_CLASSES + ["GaussianMeasure", "GaussianDiagMeasure", "GaussianPDF", "GaussianDiagPDF", "ConjugateFactor", "OneRankFactor", "LinearFactor", "ConstantFactor", "ConditionalGaussianPDF", "ConditionalGaussianDiagPDF", "ConditionalIdentityGaussianPDF", "ConditionalIdentityDiagGaussianPDF", "NNControlGaussianConditional"]


def observe(o):
    """What the object 'evaluates to' (function values) + exposed caches."""
    x = J(al.points(3, D, salt=1))
    y = J(al.points(2, D, salt=4))
    name = type(o).__name__
    if name in APPROX_CLASSES:
        # what the object evaluates to: p(y|x) at points, and its moment-matched marginal for a fixed prior
        pr = objs.mk_pdf("GaussianPDF", objs.spd_batch(D, 1, 1, 0, ("x18pr",)), objs.vec_batch(D, 1, 1, 0, ("x18pr",)) * 0.5)
        pm = o.affine_marginal_transformation(pr)
        return dict(value=np.concatenate([np.asarray(o.condition_on_x(x).evaluate_ln(y)).ravel(), np.asarray(pm.mu).ravel(), np.asarray(pm.Sigma).ravel()]))
    if "Conditional" in name:
        if name.startswith("NNControl"):
            u = jnp.array([[0.7, -0.2]])
            return dict(value=np.asarray(o.condition_on_x_u(x, u).evaluate_ln(y)))
        return dict(value=np.asarray(o.condition_on_x(x).evaluate_ln(y)), Sigma=np.asarray(o.Sigma), Lambda=np.asarray(o.Lambda), ln_det_Sigma=np.asarray(o.ln_det_Sigma))
    out = dict(value=np.asarray(o.evaluate_ln(x)))
    if hasattr(o, "log_integral"):
        # mass and first / second moments are part of "the same function"
        import copy as _copy

        q = _copy.copy(o)
        out["value"] = np.concatenate([out["value"].ravel(), np.asarray(q.log_integral()).ravel(), np.asarray(q.integrate("x")).ravel(), np.asarray(q.integrate("xx'")).ravel()])
    for a in ("Sigma", "ln_det_Sigma", "ln_det_Lambda", "mu", "lnZ"):
        v = getattr(o, a, None)
        if v is not None:
            out[a] = np.asarray(v)
    out["Lambda"] = np.asarray(o.Lambda)
    out["nu"] = np.asarray(o.nu)
    return out


def coherent(ctx, site, ob, facts):
    if "Sigma" in ob and "Lambda" in ob and ob["Sigma"].shape == ob["Lambda"].shape:
        Dd = ob["Sigma"].shape[-1]
        ctx.close(site + ".SigmaLambda", np.einsum("rij,rjk->rik", ob["Sigma"], ob["Lambda"]), np.tile(np.eye(Dd)[None], (len(ob["Sigma"]), 1, 1)), facts=facts, symptom="incoherent")
        if "ln_det_Sigma" in ob:
            ctx.close(site + ".ln_det_Sigma", ob["ln_det_Sigma"], np.linalg.slogdet(ob["Sigma"])[1], facts=facts, symptom="incoherent")
        if "mu" in ob and "nu" in ob:
            ctx.close(site + ".mu", ob["mu"], np.einsum("rij,rj->ri", ob["Sigma"], ob["nu"]), facts=facts, symptom="incoherent")


def run_crossing(shard, ctx):
    cls = shard["cls"]
    seed = shard["seed"]
    x = J(al.points(3, D, salt=1))
    for vi in (0, 100):
        for label, mk in _cross_objects(cls, vi, seed):
            ref = observe(mk())["value"]
            crossings = {
                "flatten_unflatten": lambda o: jax.tree_util.tree_unflatten(*reversed(jax.tree_util.tree_flatten(o))),
                "tree_map_identity": lambda o: jax.tree_util.tree_map(lambda a: a, o),
                "jit_identity": lambda o: jax.jit(lambda q: q)(o),
                "jit_result": lambda o: jax.jit(lambda leaves, td=jax.tree_util.tree_structure(o): jax.tree_util.tree_unflatten(td, leaves))(jax.tree_util.tree_leaves(o)),
                "scan_carry": lambda o: jax.lax.scan(lambda c, _: (c, 0.0), o, jnp.arange(2))[0],
                # a scan carry must keep its pytree structure: only where slice() returns the same class
                # rebuilding an object from its own fields (the dataclass replace) is the same round trip as unflattening
                "replace_own_field": lambda o: o.replace(**{f: getattr(o, f) for f in [k for k, fd in o.__dataclass_fields__.items() if fd.init][:1]}),
                "scan_carry_sliced": lambda o: jax.lax.scan(lambda c, _: (c.slice(jnp.arange(c.R)), 0.0), o, jnp.arange(2))[0] if hasattr(o, "slice") and type(o).__name__ not in APPROX_CLASSES and not type(o).__name__.startswith("NNControl") and type(o.slice(jnp.arange(o.R))) is type(o) else o,
            }
            for cname, cfn in crossings.items():
                if not ctx.case(dict(cls=cls, state=label, vi=vi, crossing=cname)):
                    continue
                facts = dict(cls=cls, state=label, crossing=cname)
                ctx.count("states")
                ctx.count("transitions")
                with ctx.guard("crossing." + cname, facts) as g:
                    o2 = cfn(mk())
                    ob = observe(o2)
                if not g.ok:
                    continue
                ctx.count("traces_validated_against_impl")
                if type(o2).__name__ != cls and not (cname == "scan_carry_sliced"):
                    ctx.fail("crossing.class", "class_changed", observed=type(o2).__name__, expected=cls, facts=facts)
                ctx.close("crossing.value", ob["value"], ref, facts=facts, symptom="function_changed")
                coherent(ctx, "crossing.caches", ob, facts)
            # object as a jit argument: the function of the object computed inside jit
            if ctx.case(dict(cls=cls, state=label, vi=vi, crossing="jit_argument")):
                facts = dict(cls=cls, state=label, crossing="jit_argument")
                ctx.count("states")
                ctx.count("transitions")
                with ctx.guard("crossing.jit_argument", facts) as g:
                    if cls in APPROX_CLASSES:
                        pr = objs.mk_pdf("GaussianPDF", objs.spd_batch(D, 1, 1, 0, ("x18pr",)), objs.vec_batch(D, 1, 1, 0, ("x18pr",)) * 0.5)

                        def fa(o, xx, yy, pr):
                            pm = o.affine_marginal_transformation(pr)
                            return jnp.concatenate([o.condition_on_x(xx).evaluate_ln(yy).ravel(), pm.mu.ravel(), pm.Sigma.ravel()])
                        got = np.asarray(jax.jit(fa)(mk(), x, J(al.points(2, D, salt=4)), pr))
                    elif "Conditional" in cls:
                        if cls.startswith("NNControl"):
                            got = np.asarray(jax.jit(lambda o, xx, yy: o.condition_on_x_u(xx, jnp.array([[0.7, -0.2]])).evaluate_ln(yy))(mk(), x, J(al.points(2, D, salt=4))))
                        else:
                            got = np.asarray(jax.jit(lambda o, xx, yy: o.condition_on_x(xx).evaluate_ln(yy))(mk(), x, J(al.points(2, D, salt=4))))
                    else:
                        got = np.asarray(jax.jit(lambda o, xx: jnp.concatenate([o.evaluate_ln(xx).ravel(), o.log_integral().ravel(), o.integrate("x").ravel(), o.integrate("xx'").ravel()]) if hasattr(o, "log_integral") else o.evaluate_ln(xx))(mk(), x))
                if g.ok:
                    ctx.count("traces_validated_against_impl")
                    ctx.close("crossing.value", got, ref, facts=facts, symptom="function_changed")
            # to_dict / from_dict
            o = mk()
            if hasattr(o, "to_dict") and hasattr(type(o), "from_dict") and ctx.case(dict(cls=cls, state=label, vi=vi, crossing="to_dict_from_dict")):
                facts = dict(cls=cls, state=label, crossing="to_dict_from_dict")
                ctx.count("states")
                ctx.count("transitions")
                with ctx.guard("crossing.to_dict_from_dict", facts) as g:
                    o2 = type(o).from_dict(o.to_dict())
                    ob = observe(o2)
                if g.ok:
                    ctx.count("traces_validated_against_impl")
                    ctx.close("crossing.value", ob["value"], ref, facts=facts, symptom="function_changed")
                    coherent(ctx, "crossing.caches", ob, facts)
    ctx.sample(dict(shard=shard["id"], cls=cls, crossings=["flatten_unflatten", "tree_map_identity", "jit_identity", "jit_result", "replace_own_field", "scan_carry", "scan_carry_sliced", "jit_argument", "to_dict_from_dict"]))
