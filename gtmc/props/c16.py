"""C16 -- moment matching of approximate conditionals is exact."""
import math

import numpy as np
from jax import numpy as jnp

from gaussian_toolbox import approximate_conditional as ac

from .. import alphabet as al
from .. import objs
from .. import refmodel as rm

J = jnp.asarray

PROPERTY = "C16"
LEVEL = "exploration"
TECHNIQUE = "bounded-exhaustive enumeration (model class x shapes x R_x x catalogue) vs two independent oracles: certified quadrature of the object's own condition_on_x moments and NumPy closed forms (Gaussian-times-Gaussian integrals, per-unit 1-D link expectations)"
RULE = (
    "complete product: {RBF, squared-exponential feature models} x Dx in 1..3 x Dy in {1,2,4} x Dk in 1..3 and {exp, cosh-1, step, ReLU heteroscedastic} x (Dy,Da,Dk) in {(1,1,1),(2,2,1),(2,2,2),(1,2,1),(2,3,2),(4,4,2),(5,5,3)} x Dx in 1..3, "
    "x R_x in {1,2} x value index; per case: stated read-out of the conditional mean (unit-height bumps), marginal (mu,Sigma), joint (mu,Sigma incl. cross-covariance), conditional transformation (M,b,Sigma) "
    "against (A) quadrature of mu(x), Sigma(x) read black-box from condition_on_x(nodes) [Dx<=2; piecewise at kinks for Dx=1] and (B) closed forms [any Dx]. distinct = (shard, R_x, value index)"
)
ASSUMPTIONS = [
    "real-valued parameters on the finite catalogue + VERIF_SEED-indexed generic reals only; non-zero centres/offsets, length scales >= 0.5, weight scale <= 1",
    "quadrature oracle trusted only with its two-resolution certificate (1e-10 relative); uncertified cases are excluded and counted; kinked links (step, ReLU) use quadrature only for Dx=1 (breakpoints at the kinks)",
]
BOUNDS = {"quick": dict(Dx=[1, 2, 3]), "thorough": dict(Dx=[1, 2, 3, 4])}
BUDGET = {"quick": 900, "thorough": 3600}

HSHAPES = [(1, 1, 1), (2, 2, 1), (2, 2, 2), (1, 2, 1), (2, 3, 2), (4, 4, 2), (5, 5, 3)]
LINKS = {"Exp": ac.HeteroscedasticExpConditional, "CoshM1": ac.HeteroscedasticCoshM1Conditional, "Heaviside": ac.HeteroscedasticHeavisideConditional, "ReLU": ac.HeteroscedasticReLUConditional}


def shards(tier, seed):
    out = []
    for kind in ("LRBF", "LSEM"):
        for Dx in BOUNDS[tier]["Dx"]:
            for Dy in (1, 2, 4):
                for Dk in ((1, 2, 3) if Dy < 4 else (2,)):
                    out.append(dict(id="C16/%s/Dx%d.Dy%d.Dk%d" % (kind, Dx, Dy, Dk), kind=kind, Dx=Dx, Dy=Dy, Dk=Dk, cost=Dx * 3, facts=dict(kind=kind, Dx=Dx, Dy=Dy, Dk=Dk)))
    # larger sizes: more than three kernels / noise units, five outputs
    for kind in ("LRBF", "LSEM"):
        for (Dx, Dy, Dk) in ((2, 2, 4), (3, 5, 5)):
            out.append(dict(id="C16/%s/Dx%d.Dy%d.Dk%d.large" % (kind, Dx, Dy, Dk), kind=kind, Dx=Dx, Dy=Dy, Dk=Dk, cost=Dx * 4, facts=dict(kind=kind, Dx=Dx, Dy=Dy, Dk=Dk)))
    for link in LINKS:
        for (Dx, Dy, Da, Dk) in ((2, 3, 4, 4), (3, 5, 5, 5)):
            out.append(dict(id="C16/Hetero%s/Dx%d.Dy%d.Da%d.Dk%d.large" % (link, Dx, Dy, Da, Dk), kind="Hetero", link=link, Dx=Dx, Dy=Dy, Da=Da, Dk=Dk, cost=Dx * 4, facts=dict(kind="Hetero" + link, link=link, Dx=Dx, Dy=Dy, Da=Da, Dk=Dk)))
    for link in LINKS:
        for Dx in BOUNDS[tier]["Dx"]:
            for (Dy, Da, Dk) in HSHAPES:
                out.append(dict(id="C16/Hetero%s/Dx%d.Dy%d.Da%d.Dk%d" % (link, Dx, Dy, Da, Dk), kind="Hetero", link=link, Dx=Dx, Dy=Dy, Da=Da, Dk=Dk, cost=Dx * 3, facts=dict(kind="Hetero" + link, link=link, Dx=Dx, Dy=Dy, Da=Da, Dk=Dk)))
    return out


def build(shard, vi, seed):
    kind, Dx, Dy, Dk = shard["kind"], shard["Dx"], shard["Dy"], shard["Dk"]
    tag = ("c16", kind, shard.get("link"), Dx, Dy, Dk)
    b = objs.vecn_batch(Dy, 1, vi, seed, tag + ("b",)) * 0.5
    if kind in ("LRBF", "LSEM"):
        Sy = objs.spd_batch(Dy, 1, vi, seed, tag + ("Sy",))
        M = objs.mat_batch(Dy, Dx + Dk, 1, vi, seed, tag + ("M",)) * 0.5
        if kind == "LRBF":
            cen = np.array([al.int_vector(Dx, salt=k + vi) for k in range(Dk)]) * 0.5
            ls = np.array([[0.5 + 0.5 * ((k + d + vi) % 3) for d in range(Dx)] for k in range(Dk)])
            if vi >= 100:
                rng = al.rng_for(seed, "c16rbf", Dx, Dk, vi)
                cen = rng.uniform(-1.5, 1.5, size=(Dk, Dx))
                ls = rng.uniform(0.5, 1.5, size=(Dk, Dx))
            o = ac.LRBFGaussianConditional(M=J(M), b=J(b), mu=J(cen), length_scale=J(ls), Sigma=J(Sy))
            par = dict(M=M[0], b=b[0], Sy=Sy[0], cen=cen, ls=ls)
        else:
            W = np.array([np.concatenate([[0.4 * (k + 1) * (-1) ** k], al.int_vector(Dx, salt=k + 1 + vi) * 0.4]) for k in range(Dk)])
            if vi == 0 and Dk >= 2:
                W[-1, 1:] = 0.0  # a legal constant feature exp(-w0^2/2): all-zero weight vector
            if vi >= 100:
                rng = al.rng_for(seed, "c16sem", Dx, Dk, vi)
                W = rng.uniform(-1, 1, size=(Dk, Dx + 1))
                W[:, 0] = np.where(np.abs(W[:, 0]) < 0.2, 0.5, W[:, 0])
            o = ac.LSEMGaussianConditional(M=J(M), b=J(b), W=J(W), Sigma=J(Sy))
            par = dict(M=M[0], b=b[0], Sy=Sy[0], w0=W[:, 0], w=W[:, 1:])
        return o, par
    Da = shard["Da"]
    M = objs.mat_batch(Dy, Dx, 1, vi, seed, tag + ("M",)) * 0.5
    A = al.int_matrix(Dy, Da, salt=1 + vi)[None] * 0.5
    W = np.array([np.concatenate([[0.3 * (-1) ** k * (1 + k)], al.int_vector(Dx, salt=k + 2 + vi) * 0.3]) for k in range(Dk)])
    if vi >= 100:
        rng = al.rng_for(seed, "c16het", Dx, Dk, Da, vi)
        A = rng.uniform(-1, 1, size=(1, Dy, Da)) + np.eye(Dy, Da)[None]
        W = rng.uniform(-1, 1, size=(Dk, Dx + 1))
        W[:, 0] = np.where(np.abs(W[:, 0]) < 0.2, 0.4, W[:, 0])
        W[:, 1] = np.where(np.abs(W[:, 1]) < 0.2, 0.5, W[:, 1])
    o = LINKS[shard["link"]](M=J(M), b=J(b), A=J(A), W=J(W))
    return o, dict(M=M[0], b=b[0], A=A[0], w0=W[:, 0], w=W[:, 1:], link=shard["link"])


UNIT = 2.0 ** -10  # ~1e-3, a power of two: rescaling lengths is then exact in floating point


def build_scaled(shard, par, u):
    """The same model with x and y measured in units 1/u (lengths, centres, offsets, noise scaled; an absolute constant anywhere in the library shows up)."""
    kind, Dx = shard["kind"], shard["Dx"]
    if kind == "LRBF":
        M = np.concatenate([par["M"][:, :Dx], par["M"][:, Dx:] * u], axis=1)
        return ac.LRBFGaussianConditional(M=J(M[None]), b=J(par["b"][None] * u), mu=J(par["cen"] * u), length_scale=J(par["ls"] * u), Sigma=J(par["Sy"][None] * u * u))
    if kind == "LSEM":
        M = np.concatenate([par["M"][:, :Dx], par["M"][:, Dx:] * u], axis=1)
        W = np.concatenate([par["w0"][:, None], par["w"] / u], axis=1)
        return ac.LSEMGaussianConditional(M=J(M[None]), b=J(par["b"][None] * u), W=J(W), Sigma=J(par["Sy"][None] * u * u))
    W = np.concatenate([par["w0"][:, None], par["w"] / u], axis=1)
    return LINKS[shard["link"]](M=J(par["M"][None]), b=J(par["b"][None] * u), A=J(par["A"][None] * u), W=J(W))


def bumps(par, kind, X):
    """Unit-height Gaussian bumps k(x) [P, Dk] by the documented formula."""
    if kind == "LRBF":
        d = (X[:, None, :] - par["cen"][None]) / par["ls"][None]
        return np.exp(-0.5 * np.sum(d * d, axis=2))
    h = X @ par["w"].T + par["w0"][None]
    return np.exp(-0.5 * h * h)


def kernel_nat(par, kind, k):
    """Natural parameters (Lam, nu, lnb) of bump k."""
    if kind == "LRBF":
        L = np.diag(1.0 / par["ls"][k] ** 2)
        s = par["cen"][k]
        return L, L @ s, -0.5 * s @ L @ s
    w, w0 = par["w"][k], par["w0"][k]
    return np.outer(w, w), -w0 * w, -0.5 * w0 * w0


def feature_closed_form(par, kind, mu, Sig):
    """E[phi], E[phi phi'], E[phi x'] for phi = (x, k(x)), x ~ N(mu,Sig)."""
    Dx = len(mu)
    Dk = len(par["cen"]) if kind == "LRBF" else len(par["w0"])
    Lx, nx, cx = rm.moment_to_nat(mu, Sig)
    Ek = np.zeros(Dk)
    Ekx = np.zeros((Dk, Dx))
    Ekk = np.zeros((Dk, Dk))
    nat = [kernel_nat(par, kind, k) for k in range(Dk)]
    for i in range(Dk):
        L, n, c = Lx + nat[i][0], nx + nat[i][1], cx + nat[i][2]
        Ek[i] = math.exp(rm.ln_integral(L, n, c))
        Ekx[i] = Ek[i] * np.linalg.solve(L, n)
        for j in range(Dk):
            L2, n2, c2 = L + nat[j][0], n + nat[j][1], c + nat[j][2]
            Ekk[i, j] = math.exp(rm.ln_integral(L2, n2, c2))
    Ephi = np.concatenate([mu, Ek])
    Exx = Sig + np.outer(mu, mu)
    Epp = np.block([[Exx, Ekx.T], [Ekx, Ekk]])
    Epx = np.concatenate([Exx, Ekx], axis=0)
    return Ephi, Epp, Epx


def link_expect(link, m, s):
    z = m / s
    if link == "Exp":
        return math.exp(m + 0.5 * s * s)
    if link == "CoshM1":
        return math.exp(0.5 * s * s) * math.cosh(m) - 1.0
    if link == "Heaviside":
        return rm.std_norm_cdf(z)
    if link == "ReLU":
        return m * rm.std_norm_cdf(z) + s * rm.std_norm_pdf(z)
    raise KeyError(link)


def closed_form_moments(par, kind, mu, Sig):
    """-> (E[y], Cov[y], Cov[y,x])"""
    if kind in ("LRBF", "LSEM"):
        Ephi, Epp, Epx = feature_closed_form(par, kind, mu, Sig)
        M, b = par["M"], par["b"]
        Ey = M @ Ephi + b
        Eyy = par["Sy"] + M @ Epp @ M.T + np.outer(M @ Ephi, b) + np.outer(b, M @ Ephi) + np.outer(b, b)
        Eyx = M @ Epx + np.outer(b, mu)
        return Ey, Eyy - np.outer(Ey, Ey), Eyx - np.outer(Ey, mu)
    M, b, A = par["M"], par["b"], par["A"]
    Dk = len(par["w0"])
    Ey = M @ mu + b
    d = np.zeros(Dk)
    for k in range(Dk):
        m = par["w"][k] @ mu + par["w0"][k]
        s = math.sqrt(par["w"][k] @ Sig @ par["w"][k])
        d[k] = link_expect(par["link"], m, s)
    Ak = A[:, :Dk]
    Cy = M @ Sig @ M.T + A @ A.T + Ak @ np.diag(d) @ Ak.T
    return Ey, Cy, M @ Sig


def link_fn(link, h):
    return {"Exp": np.exp, "CoshM1": lambda t: np.cosh(t) - 1.0, "Heaviside": lambda t: (t >= 0).astype(float), "ReLU": lambda t: np.maximum(t, 0.0)}[link](h)


def quad_moments(cond, par, kind, mu, Sig):
    """Moments of what condition_on_x returns, by certified quadrature.  None if not applicable."""
    Dx = len(mu)
    kinked = kind == "Hetero" and par["link"] in ("Heaviside", "ReLU")
    if Dx > 2 or (kinked and Dx > 1):
        return None, "not_applicable"
    # whitened weight norm: exp-type links tilt the Gaussian by s, so the domain must reach s + 8.5
    smax = 0.0
    if kind == "Hetero" and par["link"] in ("Exp", "CoshM1"):
        Lc = np.linalg.cholesky(Sig)
        smax = max(float(np.linalg.norm(Lc.T @ par["w"][k])) for k in range(len(par["w0"])))
    base = (8.5 if Dx == 1 else 7.5) + smax
    res = []
    # (nodes per panel, domain half-width): two resolutions + one larger domain (certificates)
    for n, zmax in (((8, base), (12, base), (8, base + 1.5)) if Dx == 1 else ((7, base), (10, base), (7, base + 1.2))):
        if Dx == 1 and kinked:
            s = math.sqrt(Sig[0, 0])
            kinks = sorted((-par["w0"][k] / par["w"][k, 0] - mu[0]) / s for k in range(len(par["w0"])))
            br = sorted(set(list(np.arange(-zmax, zmax + 1e-9, 0.25)) + [z for z in kinks if -zmax < z < zmax]))
            z, w = rm.gauss_legendre_piecewise(br, n)
            w = w * np.exp(-0.5 * z * z) / math.sqrt(2 * math.pi)
            X = (mu[0] + s * z)[:, None]
            W = w
        else:
            X, W = rm.normal_expect_nodes(mu, Sig, n, h=0.25 if Dx == 1 else 0.3, zmax=zmax)
        px = cond.condition_on_x(J(X))
        m = np.asarray(px.mu)
        S = np.asarray(px.Sigma)
        Ey = W @ m
        Eyy = np.einsum("p,pij->ij", W, S + m[:, :, None] * m[:, None, :])
        Eyx = np.einsum("p,pi,pj->ij", W, m, X)
        res.append((Ey, Eyy - np.outer(Ey, Ey), Eyx - np.outer(Ey, mu)))
    sc = max(1.0, max(float(np.max(np.abs(a))) for a in res[1]))
    cert = all(np.max(np.abs(a - b)) <= 1e-10 * sc for a, b in zip(res[0], res[1])) and all(np.max(np.abs(a - b)) <= 1e-10 * sc for a, b in zip(res[0], res[2]))
    return res[1], ("ok" if cert else "uncertified")


def run_shard(shard, ctx):
    tier, seed = shard["tier"], shard["seed"]
    kind, Dx, Dy = shard["kind"], shard["Dx"], shard["Dy"]
    vis = [0, 100] if tier == "quick" else [0, 1, 100, 101, 102, 103, 104, 105]
    for vi in vis:
        for Rx in (1, 2):
            if not ctx.case(dict(vi=vi, Rx=Rx)):
                continue
            facts = dict(Rx=Rx, vi=vi)
            with ctx.guard("build", facts) as g:
                cond, par = build(shard, vi, seed)
            if not g.ok:
                continue
            tag = ("c16p", Dx)
            # for the seed-generic value index the prior is a DIAGONAL-class density (its shortcuts must not leak into the result)
            pxk = "GaussianDiagPDF" if (vi == 100 and Rx == 2) else "GaussianPDF"
            Sx = objs.spd_batch(Dx, Rx, vi + 1, seed, tag, diag=(pxk == "GaussianDiagPDF"))
            mx = objs.vec_batch(Dx, Rx, vi + 1, seed, tag) * 0.5
            p_x = objs.mk_pdf(pxk, Sx, mx)
            # ---- read-out of the conditional mean ------------------------------------
            X = np.concatenate([al.points(3, Dx, salt=vi), par["cen"] if kind == "LRBF" else np.zeros((0, Dx))], axis=0)
            if kind == "LSEM":
                # points on the hyperplanes w_i'x + w_i0 = 0
                hp = np.array([-par["w0"][k] * par["w"][k] / (par["w"][k] @ par["w"][k]) for k in range(len(par["w0"])) if par["w"][k] @ par["w"][k] > 0]).reshape(-1, Dx)
                X = np.concatenate([X, hp], axis=0)
            with ctx.guard("readout.call", facts):
                px = cond.condition_on_x(J(X))
                got_mu = np.asarray(px.mu)
                if kind in ("LRBF", "LSEM"):
                    kx = bumps(par, kind, X)
                    ref_mu = X @ par["M"][:, :Dx].T + kx @ par["M"][:, Dx:].T + par["b"]
                    ctx.close("readout.mean", got_mu, ref_mu, facts=facts)
                    ctx.close("readout.Sigma", np.asarray(px.Sigma), np.tile(par["Sy"][None], (len(X), 1, 1)), facts=facts)
                else:
                    ref_mu = X @ par["M"].T + par["b"]
                    ctx.close("readout.mean", got_mu, ref_mu, facts=facts)
                    Dk = len(par["w0"])
                    Ak = par["A"][:, :Dk]
                    dx = link_fn(par["link"], X @ par["w"].T + par["w0"])
                    refS = par["A"] @ par["A"].T + np.einsum("ik,pk,jk->pij", Ak, dx, Ak)
                    ctx.close("readout.Sigma", np.asarray(px.Sigma), refS, facts=facts)
            # ---- transformations -------------------------------------------------------
            with ctx.guard("transformations.call", facts) as g:
                p_y = cond.affine_marginal_transformation(p_x)
                p_xy = cond.affine_joint_transformation(p_x)
                c_xy = cond.affine_conditional_transformation(p_x)
                got = dict(my=np.asarray(p_y.mu), Sy=np.asarray(p_y.Sigma), mj=np.asarray(p_xy.mu), Sj=np.asarray(p_xy.Sigma), cM=np.asarray(c_xy.M), cb=np.asarray(c_xy.b), cS=np.asarray(c_xy.Sigma))
            if not g.ok:
                continue
            for oracle in ("closed_form", "quadrature"):
                refs = []
                status = "ok"
                for r in range(Rx):
                    if oracle == "closed_form":
                        refs.append(closed_form_moments(par, kind, mx[r], Sx[r]))
                    else:
                        with ctx.guard("quadrature.condition_on_x", facts) as g:
                            q, status = quad_moments(cond, par, kind, mx[r], Sx[r])
                        if not g.ok:
                            status = "failed"
                        if status != "ok":
                            break
                        refs.append(q)
                if status != "ok":
                    ctx.count("quadrature_" + status)
                    continue
                ctx.count("oracle_" + oracle)
                f2 = dict(facts, oracle=oracle)
                Ey = np.array([r_[0] for r_ in refs])
                Cy = np.array([r_[1] for r_ in refs])
                Cyx = np.array([r_[2] for r_ in refs])
                sc = float(max(1.0, np.max(np.abs(Cy))))
                ctx.close("marginal.mu", got["my"], Ey, facts=f2)
                ctx.close("marginal.Sigma", got["Sy"], Cy, scale=sc, facts=f2)
                mj = np.concatenate([mx, Ey], axis=1)
                Sj = np.array([np.block([[Sx[r], Cyx[r].T], [Cyx[r], Cy[r]]]) for r in range(Rx)])
                ctx.close("joint.mu", got["mj"], mj, facts=f2)
                ctx.close("joint.Sigma", got["Sj"], Sj, scale=sc, facts=f2)
                cm = [rm.conditional(mj[r], Sj[r], range(Dx), range(Dx, Dx + Dy)) for r in range(Rx)]
                ctx.close("conditional.M", got["cM"], np.array([c[0] for c in cm]), facts=f2, tol=1e-7)
                ctx.close("conditional.b", got["cb"], np.array([c[1] for c in cm]), facts=f2, tol=1e-7)
                ctx.close("conditional.Sigma", got["cS"], np.array([c[2] for c in cm]), facts=f2, tol=1e-7)
                if vi == 0 and Rx == 1 and oracle == "closed_form":
                    ctx.sample(dict(shard=shard["id"], params={k: v for k, v in par.items()}, p_x=dict(mu=mx, Sigma=Sx), E_y=Ey, Cov_y=Cy, Cov_yx=Cyx))
            # ---- change of units: the same model with all lengths scaled by 2^-10 gives the same answers, rescaled ----
            if vi in (0, 100):
                u = UNIT
                with ctx.guard("units.call", facts) as g:
                    cs = build_scaled(shard, par, u)
                    ps = objs.mk_pdf(pxk, Sx * u * u, mx * u)
                    s_y = cs.affine_marginal_transformation(ps)
                    s_xy = cs.affine_joint_transformation(ps)
                    s_c = cs.affine_conditional_transformation(ps)
                    gs = dict(my=np.asarray(s_y.mu) / u, Sy=np.asarray(s_y.Sigma) / (u * u), mj=np.asarray(s_xy.mu) / u, Sj=np.asarray(s_xy.Sigma) / (u * u), cM=np.asarray(s_c.M), cb=np.asarray(s_c.b) / u, cS=np.asarray(s_c.Sigma) / (u * u))
                if g.ok:
                    sc = float(max(1.0, np.max(np.abs(got["Sy"]))))
                    for k in ("my", "Sy", "mj", "Sj", "cM", "cb", "cS"):
                        ctx.close("units." + k, gs[k], got[k], scale=sc, facts=facts, tol=1e-7 if k[0] == "c" else 1e-8)
            # ---- histories: the SAME conditional object and the SAME p_x object, used again after an in-place change ----
            phases = [("px_replaced", None), ("px_updated", None)]
            if kind in ("LRBF", "LSEM"):
                phases.append(("phi_updated", None))
            for phase, _ in phases:
                f3 = dict(facts, phase=phase)
                with ctx.guard("history." + phase, f3) as g:
                    if phase == "px_replaced":
                        # p(x) obtained from another density through the dataclass replace(mu=...)
                        mx2 = mx * -0.5 + 0.7
                        Sx2 = Sx
                        p_x = p_x.replace(mu=J(mx2))
                        par2 = par
                    elif phase == "px_updated":
                        Sd = objs.spd_batch(Dx, 1, vi + 3, seed, tag + ("upd",))
                        md = objs.vec_batch(Dx, 1, vi + 3, seed, tag + ("upd",)) * 0.5
                        mx2, Sx2 = np.asarray(p_x.mu).copy(), np.asarray(p_x.Sigma).copy()
                        p_x.update(jnp.array([Rx - 1]), objs.mk_pdf("GaussianPDF", Sd, md))
                        mx2[Rx - 1], Sx2[Rx - 1] = md[0], Sd[0]
                        par2 = par
                    else:
                        mx2, Sx2 = np.asarray(p_x.mu), np.asarray(p_x.Sigma)
                        par2 = dict(par)
                        if kind == "LRBF":
                            par2["cen"] = par["cen"] * -0.7 + 0.2
                            cond.mu = J(par2["cen"])
                        else:
                            par2["w0"] = par["w0"] * -0.8 + 0.1
                            cond.w0 = J(par2["w0"])
                        cond.update_phi()
                    got2 = dict(my=np.asarray(cond.affine_marginal_transformation(p_x).mu), Sy=np.asarray(cond.affine_marginal_transformation(p_x).Sigma), Sj=np.asarray(cond.affine_joint_transformation(p_x).Sigma), cM=np.asarray(cond.affine_conditional_transformation(p_x).M))
                if not g.ok:
                    continue
                refs = [closed_form_moments(par2, kind, mx2[r], Sx2[r]) for r in range(Rx)]
                Ey = np.array([r_[0] for r_ in refs])
                Cy = np.array([r_[1] for r_ in refs])
                Cyx = np.array([r_[2] for r_ in refs])
                sc = float(max(1.0, np.max(np.abs(Cy))))
                ctx.close("history.%s.marginal.mu" % phase, got2["my"], Ey, facts=f3)
                ctx.close("history.%s.marginal.Sigma" % phase, got2["Sy"], Cy, scale=sc, facts=f3)
                Sj = np.array([np.block([[Sx2[r], Cyx[r].T], [Cyx[r], Cy[r]]]) for r in range(Rx)])
                ctx.close("history.%s.joint.Sigma" % phase, got2["Sj"], Sj, scale=sc, facts=f3)
                mj = np.concatenate([mx2, Ey], axis=1)
                cm = [rm.conditional(mj[r], Sj[r], range(Dx), range(Dx, Dx + Dy)) for r in range(Rx)]
                ctx.close("history.%s.conditional.M" % phase, got2["cM"], np.array([c[0] for c in cm]), facts=f3, tol=1e-7)
