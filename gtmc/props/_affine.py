"""Shared driver for C07 / C08 / C09: exact affine transformations of the five
linear conditional kinds, enumerated over kind x batch layout x (Dx,Dy) x catalogue."""
import numpy as np
from jax import numpy as jnp

from .. import alphabet as al
from .. import objs
from .. import refmodel as rm

J = jnp.asarray

LAYOUTS = {"quick": [(1, 1), (1, 2), (2, 1), (1, 3), (3, 1)], "thorough": [(1, 1), (1, 2), (2, 1), (1, 3), (3, 1), (1, 4), (4, 1)]}
DIMS = {"quick": [1, 2, 3], "thorough": [1, 2, 3, 4]}
NVAL = {"quick": (3, 1), "thorough": (6, 6)}  # (catalogue entries, seed-generic entries)


def make_shards(tier, seed, prop):
    out = []
    for kind in objs.COND_KINDS:
        for (Rc, Rx) in LAYOUTS[tier]:
            if kind == "nncontrol" and Rc > 3:
                continue
            for Dx in DIMS[tier]:
                for Dy in DIMS[tier]:
                    if kind in ("identity", "identity_diag") and Dx != Dy:
                        continue
                    out.append(
                        dict(
                            id="%s/%s/Rc%d.Rx%d/Dx%d.Dy%d" % (prop, kind, Rc, Rx, Dx, Dy),
                            kind=kind, Rc=Rc, Rx=Rx, Dx=Dx, Dy=Dy,
                            cost=(Dx + Dy) * (Rc + Rx),
                            facts=dict(kind=kind, Rc=Rc, Rx=Rx, Dx=Dx, Dy=Dy),
                        )
                    )
    # a light pass on larger sizes (one batch layout each way, first catalogue entry + the seed-generic one)
    if tier == "quick":
        for kind in ("full", "diag", "identity"):
            for (Rc, Rx) in ((1, 4), (4, 1)):
                for (Dx, Dy) in ((4, 4), (4, 2), (2, 4)):
                    if kind == "identity" and Dx != Dy:
                        continue
                    out.append(dict(id="%s/%s/Rc%d.Rx%d/Dx%d.Dy%d/big" % (prop, kind, Rc, Rx, Dx, Dy), kind=kind, Rc=Rc, Rx=Rx, Dx=Dx, Dy=Dy, big=True, cost=30, facts=dict(kind=kind, Rc=Rc, Rx=Rx, Dx=Dx, Dy=Dy)))
    return out


UNIT = 2.0 ** -10


def ctors_for(kind):
    return ["Sigma"] if kind == "nncontrol" else (["Sigma", "Lambda", "SigmaLambda", "all"] if kind.startswith("identity") else ["Sigma", "Lambda", "SigmaLambda", "all", "b_none"])


PX_MODE = {"SigmaLambda": "Sigma+Lambda", "all": "Sigma+Lambda+lndet"}  # the prior is built through the matching constructor variant


def build_case(shard, vi, seed, ctor="Sigma", prep="fresh"):
    kind, Rc, Rx, Dx, Dy = (shard[k] for k in ("kind", "Rc", "Rx", "Dx", "Dy"))
    tag = (kind, Rc, Rx, Dx, Dy)
    diag = kind in ("diag", "identity_diag")
    M = objs.mat_batch(Dy, Dx, Rc, vi, seed, tag + ("M",))
    if vi == 2:
        M = M * 0.5
    b = objs.vecn_batch(Dy, Rc, vi, seed, tag + ("b",))
    Sy = objs.spd_batch(Dy, Rc, vi, seed, tag + ("Sy",), diag=diag)
    # the prior is a diagonal-class density for the second catalogue entry (the result must not inherit its shortcuts)
    px_kind = "GaussianDiagPDF" if vi == 1 else "GaussianPDF"
    Sx = objs.spd_batch(Dx, Rx, vi + 1, seed, tag + ("Sx",), diag=(px_kind == "GaussianDiagPDF"))
    mx = objs.vec_batch(Dx, Rx, vi, seed, tag + ("mx",))
    if prep == "units":
        # the same problem with x and y measured in units of 2^10 (covariances ~1e-6): the algebra is scale-free,
        # so any absolute constant inside the library shows up at ~1e-4 relative
        u = UNIT
        b, Sy, mx, Sx = b * u, Sy * u * u, mx * u, Sx * u * u
    if prep == "tight_prior":
        # a prior a million times tighter than the observation noise (every matrix keeps its condition number): gains of
        # size 1e-6 must come out with relative, not absolute, accuracy for the round trips to close
        Sx = Sx * 2.0 ** -20
    if prep == "tiny_noise":
        # observation noise ~1e-9 of M Sx M' (every INPUT matrix keeps its condition number)
        Sy = Sy * 2.0 ** -30
    if prep == "vague_prior":
        # the mirror image: a precise observation of a vague prior (prior covariance a million times the noise)
        Sx = Sx * 2.0 ** 20
    if prep == "sliced" and kind != "nncontrol":
        # the operands are reached from elsewhere: a larger batch sliced with NEGATIVE indices
        M2 = np.concatenate([M[:1] * -0.5 + 1.0, M], axis=0)
        b2 = np.concatenate([b[:1] + 3.0, b], axis=0)
        Sy2 = np.concatenate([Sy[:1] * 2.0, Sy], axis=0)
        big, kw, (Mb, bb, Syb) = objs.mk_cond(kind, M2, b2, Sy2, ctor=ctor)
        idx = list(range(-Rc, 0)) if vi == 0 else list(range(1, Rc + 1))  # negative / positive indices >= 1
        cond = big.slice(jnp.array(idx))
        Me, be, Sye = Mb[idx], bb[idx], Syb[idx]
        Sx2 = np.concatenate([Sx[:1] * 1.5, Sx], axis=0)
        mx2 = np.concatenate([mx[:1] - 2.0, mx], axis=0)
        p_x = objs.mk_pdf("GaussianPDF", Sx2, mx2).slice(jnp.array(list(range(-Rx, 0))))
        return cond, kw, p_x, (Me, be, Sye, mx, Sx)
    if prep == "replaced" and kind == "nncontrol":
        # functional noise update: another instance whose Sigma is replaced through the dataclass replace()
        other, kw, (Me, be, _) = objs.mk_cond(kind, M, b, Sy * 3.0, ctor=ctor)
        cond = other.replace(Sigma=J(Sy[:1]))
        p_x = objs.mk_pdf(px_kind, Sx, mx)
        return cond, kw, p_x, (Me, be, np.tile(Sy[:1], (len(Me), 1, 1)), mx, Sx)
    if prep == "replaced" and kind in ("full", "diag"):
        # another conditional whose M and b are then replaced through the dataclass replace()
        other, kw, _ = objs.mk_cond(kind, M * -0.5 + 1.0, b + 2.0, Sy, ctor=ctor)
        cond = other.replace(M=J(M), b=J(b))
        p_x = objs.mk_pdf(px_kind, Sx, mx)
        return cond, kw, p_x, (M, b, Sy, mx, Sx)
    if prep == "updated" and kind == "nncontrol":
        # used with a control variable, then update_Sigma, then used again with the SAME control array object
        cond, kw, (Me, be, Sye) = objs.mk_cond(kind, M, b, Sy * 3.0, ctor=ctor)
        p0 = objs.mk_pdf("GaussianPDF", Sx[:1], mx[:1])
        cond.affine_marginal_transformation(p0, **kw)
        cond.affine_joint_transformation(p0, **kw)
        objs.exercise_cond(cond, kw)
        cond.update_Sigma(J(Sy[:1]))
        p_x = objs.mk_pdf("GaussianPDF", Sx, mx)
        return cond, kw, p_x, (Me, be, np.tile(Sy[:1], (len(Me), 1, 1)), mx, Sx)
    if prep == "updated" and kind != "nncontrol":
        # the conditional was built with another noise covariance and then updated in place
        cond, kw, (Me, be, Sye) = objs.mk_cond(kind, M, b, Sy * 3.0 + (0 if diag else 0.0), ctor=ctor)
        objs.exercise_cond(cond)
        cond.update_Sigma(J(Sy))
        p_x = objs.mk_pdf("GaussianPDF", Sx, mx)
        p_x.integrate("xx'")  # and the prior has been queried before
        return cond, kw, p_x, (Me, be, Sy, mx, Sx)
    cond, kw, (Me, be, Sye) = objs.mk_cond(kind, M, b, Sy, ctor=ctor)
    p_x = objs.mk_pdf(px_kind, Sx, mx, mode=PX_MODE.get(ctor, "Sigma"))
    return cond, kw, p_x, (Me, be, Sye, mx, Sx)


def value_indices(tier, shard=None):
    if shard is not None and shard.get("big"):
        return [0, 100]
    ncat, ngen = NVAL[tier]
    return list(range(ncat)) + [100 + g for g in range(ngen)] + [objs.HARD]


def run(shard, ctx, which):
    seed = shard["seed"]
    tier = shard["tier"]
    kind, Rc, Rx, Dx, Dy = (shard[k] for k in ("kind", "Rc", "Rx", "Dx", "Dy"))
    R = Rc * Rx
    for vi in value_indices(tier, shard):
      for ctor in ctors_for(kind):
        # the non-default constructor variants run on the first catalogue entry and the seed-generic one
        if ctor != "Sigma" and vi not in (0, 100):
            continue
        for N in ((2, 3) if tier == "thorough" else (2,)):
          if kind == "nncontrol":
              preps = ("fresh", "updated", "replaced") if vi in (0, 100) else ("fresh",)
          elif ctor in ("Sigma", "b_none") and vi in (0, 100):
              preps = ("fresh", "sliced", "updated") + (("replaced",) if (kind in ("full", "diag") and ctor == "Sigma") else ()) + (("units",) if ctor in ("Sigma", "Lambda") else ()) + (("tight_prior", "vague_prior", "tiny_noise") if ctor == "Sigma" else ())
          elif vi == objs.HARD and ctor == "Sigma":
              preps = ("fresh", "tight_prior", "vague_prior")  # strongly correlated AND a million times tighter / wider than the noise
          else:
              preps = ("fresh",)
          for prep in preps:
            if prep == "vague_prior" and not (which == "C08" and kind.startswith("identity")):
                # only where every matrix involved stays inside the stated domain: the identity-mean marginal N(mu, Sx + Sy);
                # a joint / posterior of a 1e6-times wider prior has a condition number far above 1e4
                continue
            if prep == "tiny_noise" and not (which == "C08" and kind in ("full", "diag") and Dy <= Dx and vi == 100):
                # only the marginal-versus-joint consistency of the general classes with a full-row-rank M (seed-generic values):
                # there p(y) = N(M mu + b, Sy + M Sx M') is well conditioned although the joint is not
                continue
            desc = dict(vi=vi, N=N, ctor=ctor, prep=prep)
            if not ctx.case(desc):
                continue
            with ctx.guard("prepare." + prep, dict(ctor=ctor, prep=prep)) as g:
                cond, kw, p_x, (M, b, Sy, mx, Sx) = build_case(shard, vi, seed, ctor=ctor, prep=prep)
            if not g.ok:
                continue
            x = al.points(N, Dx, salt=vi)
            y = al.points(N, Dy, salt=vi + 3)
            if prep == "units":
                x, y = x * UNIT, y * UNIT
            if vi == 0 and N == 2:
                ctx.sample(dict(shard=shard["id"], vi=vi, M=M, b=b, Sigma_y=Sy, mu_x=mx, Sigma_x=Sx, x=x, y=y))
            if which == "C07":
                check_joint(ctx, cond, kw, p_x, M, b, Sy, mx, Sx, x, y, Rc, Rx)
            elif which == "C08" and prep == "tiny_noise":
                check_marginal_light(ctx, cond, kw, p_x, M, b, Sy, mx, Sx, Rc, Rx)
            elif which == "C08":
                check_marginal(ctx, cond, kw, p_x, M, b, Sy, mx, Sx, x, y, Rc, Rx)
            elif which == "C09":
                check_conditional(ctx, cond, kw, p_x, M, b, Sy, mx, Sx, x, y, Rc, Rx)


def comp(rc, rx, Rx):
    return rc * Rx + rx


def coherent_pdf(ctx, site, p, facts=None):
    """Sigma*Lambda = I, ln_det_Sigma true, nu = Lambda mu, lnZ Gaussian, ln_beta=-lnZ."""
    Sig = np.asarray(p.Sigma)
    Lam = np.asarray(p.Lambda)
    D = Sig.shape[-1]
    eye = np.tile(np.eye(D)[None], (len(Sig), 1, 1))
    ok = ctx.close(site + ".SigmaLambda", np.einsum("rij,rjk->rik", Sig, Lam), eye, symptom="incoherent", facts=facts)
    ok &= ctx.close(site + ".ln_det_Sigma", np.asarray(p.ln_det_Sigma), np.linalg.slogdet(Sig)[1], symptom="incoherent", facts=facts)
    return ok


def check_joint(ctx, cond, kw, p_x, M, b, Sy, mx, Sx, x, y, Rc, Rx):
    with ctx.guard("joint.call") as g:
        joint = cond.affine_joint_transformation(p_x, **kw)
    if not g.ok:
        return
    R = Rc * Rx
    Dx, Dy = len(mx[0]), len(b[0])
    xy = np.concatenate([x, y], axis=1)
    with ctx.guard("joint.evaluate") as g:
        got = np.asarray(joint.evaluate_ln(J(xy)))
    if not g.ok:
        return
    ref = np.zeros((R, len(xy)))
    mu_ref = np.zeros((R, Dx + Dy))
    Sig_ref = np.zeros((R, Dx + Dy, Dx + Dy))
    for rc in range(Rc):
        for rx in range(Rx):
            r = comp(rc, rx, Rx)
            for n in range(len(xy)):
                ref[r, n] = rm.gauss_logpdf(y[n], M[rc] @ x[n] + b[rc], Sy[rc])[0] + rm.gauss_logpdf(x[n], mx[rx], Sx[rx])[0]
            mu_ref[r], Sig_ref[r] = rm.joint(mx[rx], Sx[rx], M[rc], b[rc], Sy[rc])
    ctx.close("joint.value", got, ref, symptom="value")
    ctx.close("joint.mu", np.asarray(joint.mu), mu_ref)
    ctx.close("joint.Sigma", np.asarray(joint.Sigma), Sig_ref)
    coherent_pdf(ctx, "joint", joint)
    objs.elementwise_matches(ctx, "joint.elementwise", joint, mu_ref, Sig_ref)
    # the joint is usable like any density: a marginal over a mixed (x, y) pair of coordinates and the x-marginal
    with ctx.guard("joint.then_marginal"):
        dims = [Dx - 1, Dx]
        mm = joint.get_marginal(jnp.array(dims))
        pts2 = al.points(2, 2, salt=5)
        refm = np.array([rm.gauss_logpdf(pts2, mu_ref[r][dims], Sig_ref[r][np.ix_(dims, dims)]) for r in range(R)])
        ctx.close("joint.then_marginal", np.asarray(mm.evaluate_ln(J(pts2))), refm)
        mx_ = joint.get_marginal(jnp.arange(Dx))
        ctx.close("joint.then_x_marginal.Sigma", np.asarray(mx_.Sigma), Sig_ref[:, :Dx, :Dx])
    # both calling conventions of evaluation agree with the chain rule at the library level too
    with ctx.guard("joint.chain_rule_lib"):
        cx = cond.condition_on_x(J(x), **kw) if "u" not in kw else cond.condition_on_x_u(J(x), kw["u"])
        lp_yx = np.asarray(cx.evaluate_ln(J(y)))  # [(Rc*N), N]
        lp_x = np.asarray(p_x.evaluate_ln(J(x)))  # [Rx, N]
        N = len(x)
        lib = np.zeros((R, N))
        for rc in range(Rc):
            for rx in range(Rx):
                for n in range(N):
                    lib[comp(rc, rx, Rx), n] = lp_yx[rc * N + n, n] + lp_x[rx, n]
        ctx.close("joint.chain_rule_lib", got, lib)


def check_marginal(ctx, cond, kw, p_x, M, b, Sy, mx, Sx, x, y, Rc, Rx):
    with ctx.guard("marginal.call") as g:
        p_y = cond.affine_marginal_transformation(p_x, **kw)
    if not g.ok:
        return
    R = Rc * Rx
    Dx, Dy = len(mx[0]), len(b[0])
    with ctx.guard("marginal.evaluate") as g:
        got = np.asarray(p_y.evaluate_ln(J(y)))
    if not g.ok:
        return
    ref = np.zeros((R, len(y)))
    mu_ref = np.zeros((R, Dy))
    Sig_ref = np.zeros((R, Dy, Dy))
    integ = np.zeros((R, len(y)))
    for rc in range(Rc):
        for rx in range(Rx):
            r = comp(rc, rx, Rx)
            mu_ref[r], Sig_ref[r] = rm.pushforward(mx[rx], Sx[rx], M[rc], b[rc])
            Sig_ref[r] = Sig_ref[r] + Sy[rc]
            ref[r] = rm.gauss_logpdf(y, mu_ref[r], Sig_ref[r])
    ctx.close("marginal.value", got, ref)
    ctx.close("marginal.mu", np.asarray(p_y.mu), mu_ref)
    ctx.close("marginal.Sigma", np.asarray(p_y.Sigma), Sig_ref)
    coherent_pdf(ctx, "marginal", p_y)
    objs.elementwise_matches(ctx, "marginal.elementwise", p_y, mu_ref, Sig_ref)
    # integral of p(y|x)p(x) dx from the identified quadratic of x -> ln cond(x)(y) + ln p(x)
    pts, _ = rm.lattice(Dx)
    with ctx.guard("marginal.integral_identity"):
        if "u" in kw:
            cx = cond.condition_on_x_u(J(pts), kw["u"])
        else:
            cx = cond.condition_on_x(J(pts))
        lpy = np.asarray(cx.evaluate_ln(J(y)))  # [Rc*P, Ny]
        lpx = np.asarray(p_x.evaluate_ln(J(pts)))  # [Rx, P]
        P = len(pts)
        for rc in range(Rc):
            for rx in range(Rx):
                for n in range(len(y)):
                    vals = lpy[rc * P:(rc + 1) * P, n] + lpx[rx]
                    Lam, nu, c, resid = rm.identify_quadratic(vals, Dx)
                    if resid > 1e-7 * max(1.0, np.max(np.abs(vals))):
                        ctx.fail("marginal.integrand_not_quadratic", "value", value=resid)
                    integ[comp(rc, rx, Rx), n] = rm.ln_integral(Lam, nu, c)
                    if rm.identification_noise(vals, Lam, nu) > 1e-9 * max(1.0, abs(integ[comp(rc, rx, Rx), n])):
                        # mode far from the origin / very narrow integrand: re-probe around the estimated mode (second stage)
                        def f_row(Pm, rc=rc, rx=rx, n=n):
                            cxm = cond.condition_on_x_u(J(Pm), kw["u"]) if "u" in kw else cond.condition_on_x(J(Pm))
                            a_ = np.asarray(cxm.evaluate_ln(J(y[n:n + 1])))[rc * len(Pm):(rc + 1) * len(Pm), 0]
                            return a_ + np.asarray(p_x.evaluate_ln(J(Pm)))[rx]
                        integ[comp(rc, rx, Rx), n], _ = rm.ln_integral_recentred(f_row, Dx, Lam, nu)
                        ctx.count("integral_oracle_recentred")
        ctx.close("marginal.integral_identity", got, integ, tol=1e-7)
    # equals the y-marginal of the joint transformation (library-level identity)
    with ctx.guard("marginal.vs_joint_marginal"):
        joint = cond.affine_joint_transformation(p_x, **kw)
        pm = joint.get_marginal(jnp.arange(Dx, Dx + Dy))
        ctx.close("marginal.vs_joint_marginal.mu", np.asarray(pm.mu), np.asarray(p_y.mu))
        ctx.close("marginal.vs_joint_marginal.Sigma", np.asarray(pm.Sigma), np.asarray(p_y.Sigma))


def check_marginal_light(ctx, cond, kw, p_x, M, b, Sy, mx, Sx, Rc, Rx):
    """Moments of p(y) against NumPy, and the y-marginal of the joint transformation against p(y) (tiny observation noise:
    the joint itself is ill-conditioned, its y-block is not)."""
    facts = dict(prep="tiny_noise")
    with ctx.guard("marginal.call", facts) as g:
        p_y = cond.affine_marginal_transformation(p_x, **kw)
        joint = cond.affine_joint_transformation(p_x, **kw)
        Dx, Dy = len(mx[0]), len(b[0])
        pm = joint.get_marginal(jnp.arange(Dx, Dx + Dy))
    if not g.ok:
        return
    R = Rc * Rx
    mu_ref = np.zeros((R, Dy))
    Sig_ref = np.zeros((R, Dy, Dy))
    for rc in range(Rc):
        for rx in range(Rx):
            r = comp(rc, rx, Rx)
            mu_ref[r], Sig_ref[r] = rm.pushforward(mx[rx], Sx[rx], M[rc], b[rc])
            Sig_ref[r] = Sig_ref[r] + Sy[rc]
    ctx.close("marginal.mu", np.asarray(p_y.mu), mu_ref, facts=facts)
    ctx.close("marginal.Sigma", np.asarray(p_y.Sigma), Sig_ref, facts=facts)
    ctx.close("marginal.vs_joint_marginal.mu", np.asarray(pm.mu), mu_ref, facts=facts)
    ctx.close("marginal.vs_joint_marginal.Sigma", np.asarray(pm.Sigma), Sig_ref, facts=facts)


def check_conditional(ctx, cond, kw, p_x, M, b, Sy, mx, Sx, x, y, Rc, Rx):
    with ctx.guard("conditional.call") as g:
        post = cond.affine_conditional_transformation(p_x, **kw)
        p_y = cond.affine_marginal_transformation(p_x, **kw)
    if not g.ok:
        return
    R = Rc * Rx
    Dx, Dy = len(mx[0]), len(b[0])
    N = len(x)
    Mp = np.zeros((R, Dx, Dy))
    bp = np.zeros((R, Dx))
    Sp = np.zeros((R, Dx, Dx))
    for rc in range(Rc):
        for rx in range(Rx):
            r = comp(rc, rx, Rx)
            Mp[r], bp[r], Sp[r] = rm.posterior(mx[rx], Sx[rx], M[rc], b[rc], Sy[rc])
    ctx.close("conditional.M", np.asarray(post.M), Mp)
    ctx.close("conditional.b", np.asarray(post.b), bp)
    ctx.close("conditional.Sigma", np.asarray(post.Sigma), Sp)
    SigL = np.einsum("rij,rjk->rik", np.asarray(post.Sigma), np.asarray(post.Lambda))
    ctx.close("conditional.SigmaLambda", SigL, np.tile(np.eye(Dx)[None], (R, 1, 1)), symptom="incoherent")
    ctx.close("conditional.ln_det_Sigma", np.asarray(post.ln_det_Sigma), np.linalg.slogdet(np.asarray(post.Sigma))[1], symptom="incoherent")
    # Bayes identity at all (x, y) through the library's own evaluation path
    with ctx.guard("conditional.bayes"):
        pxy = post.condition_on_x(J(y))  # [R*N]
        lhs_a = np.asarray(pxy.evaluate_ln(J(x)))  # [R*N, N]
        lhs_b = np.asarray(p_y.evaluate_ln(J(y)))  # [R, N]
        lhs = np.zeros((R, N, N))
        rhs = np.zeros((R, N, N))
        for rc in range(Rc):
            for rx in range(Rx):
                r = comp(rc, rx, Rx)
                for ny in range(N):
                    for nx in range(N):
                        lhs[r, ny, nx] = lhs_a[r * N + ny, nx] + lhs_b[r, ny]
                        rhs[r, ny, nx] = rm.gauss_logpdf(y[ny], M[rc] @ x[nx] + b[rc], Sy[rc])[0] + rm.gauss_logpdf(x[nx], mx[rx], Sx[rx])[0]
        ctx.close("conditional.bayes", lhs, rhs)
    # round trips component by component
    with ctx.guard("conditional.roundtrip"):
        for r in range(R):
            rc, rx = divmod(r, Rx)
            post_r = post.slice(jnp.array([r]))
            py_r = p_y.slice(jnp.array([r]))
            back = post_r.affine_conditional_transformation(py_r)
            ctx.close("conditional.roundtrip.M", np.asarray(back.M)[0], M[rc], tol=1e-7)
            ctx.close("conditional.roundtrip.b", np.asarray(back.b)[0], b[rc], tol=1e-7)
            ctx.close("conditional.roundtrip.Sigma", np.asarray(back.Sigma)[0], Sy[rc], tol=1e-7)
            px_back = post_r.affine_marginal_transformation(py_r)
            ctx.close("conditional.roundtrip.px.mu", np.asarray(px_back.mu)[0], mx[rx], tol=1e-7)
            ctx.close("conditional.roundtrip.px.Sigma", np.asarray(px_back.Sigma)[0], Sx[rx], tol=1e-7)
