"""C12 -- batches are independent components; slicing commutes with every operation.

Table-driven: for every operation entry, every batch size R, every index array
(repetitions, negatives, permutations) the relation
        op(operands).slice(idx') == op(operands sliced by idx)
is executed on the real code, idx' following the documented layout."""
import copy
import itertools

import numpy as np
from jax import numpy as jnp

from gaussian_toolbox import approximate_conditional as ac
from gaussian_toolbox import conditional, factor
from gaussian_toolbox.experimental import truncated_measure as tmod

from .. import alphabet as al
from .. import objs
from .. import refmodel as rm
from . import _graph

J = jnp.asarray

PROPERTY = "C12"
LEVEL = "exploration"
TECHNIQUE = "bounded-exhaustive enumeration (operation table x R x ALL index arrays of length<=2(3) over {-R..R-1} + all permutations x catalogue) of the slice-commutation relation on the real code; update() addressed/untouched components bit-compared"
RULE = (
    "complete product: operation table (factor / measure / density / conditional / approximate-conditional / truncated-measure public methods, all 13 integrate keys, all transformations, "
    "information quantities) x R x every index array of length <= 2 (thorough 3) over {-R..R-1} plus all permutations x value index; relation op(x).slice(idx') == op(x.slice(idx)) with idx' from the documented layout "
    "(elementwise: idx; products: i*R2+j; conditioning on N points: r*N+n); update(idx,d): addressed components equal d, others bit-identical. distinct = (op, R, idx, value index)"
)
ASSUMPTIONS = [
    "real-valued parameters on the finite catalogue + VERIF_SEED-indexed generic reals only; D=2 (thorough 1..3), R<=3 (thorough 4; 5-6 on single-index and permutation slices only)",
    "reductions over the batch (product()) and sample() (the shape of the random stream depends on R) are not slice-commuting by definition and are not in the table",
    "object results are compared attribute-wise for every attribute exposed (not None) on both sides, plus function values",
]
BOUNDS = {"quick": dict(D=[2], R=[1, 2, 3], idx_len=2, D_light=[3], R_light=[2, 4]), "thorough": dict(D=[1, 2, 3], R=[1, 2, 3, 4], idx_len=3, R_extra=[5, 6])}
BUDGET = {"quick": 900, "thorough": 7200}
WORKERS = {"thorough": 10}  # long-lived workers of the thorough tier compile thousands of programs each: fewer of them, less memory


# ---------------------------------------------------------------------------
# comparing results
# ---------------------------------------------------------------------------
ATTRS = ["Lambda", "nu", "ln_beta", "Sigma", "ln_det_Sigma", "ln_det_Lambda", "mu", "lnZ", "M", "b", "v", "g"]


def take(res, idx):
    if hasattr(res, "slice"):
        return res.slice(jnp.array(idx))
    return np.asarray(res)[np.array(idx)]


def same(ctx, site, a, b, facts, xdim=None):
    if not hasattr(a, "slice") and not hasattr(a, "evaluate_ln"):
        return ctx.close(site, np.asarray(a), np.asarray(b), facts=facts, symptom="slice_mismatch")
    ok = True
    for at in ATTRS:
        va, vb = getattr(a, at, None), getattr(b, at, None)
        if va is None or vb is None:
            continue
        ok &= ctx.close(site + "." + at, np.asarray(va), np.asarray(vb), facts=facts, symptom="slice_mismatch")
    if hasattr(a, "evaluate_ln") and hasattr(a, "D"):
        x = al.points(2, a.D, salt=5)
        with ctx.guard(site + ".evaluate", facts):
            ok &= ctx.close(site + ".value", np.asarray(a.evaluate_ln(J(x))), np.asarray(b.evaluate_ln(J(x))), facts=facts, symptom="slice_mismatch")
    if hasattr(a, "log_integral") and hasattr(b, "log_integral"):
        # what the objects compute lazily (mass, mean, second moments) must agree as well
        with ctx.guard(site + ".lazy_queries", facts):
            qa, qb = copy.copy(a), copy.copy(b)
            la, lb = np.asarray(qa.log_integral()), np.asarray(qb.log_integral())
            if np.all(np.isfinite(lb)):
                ok &= ctx.close(site + ".log_integral", la, lb, facts=facts, symptom="slice_mismatch")
                ok &= ctx.close(site + ".mean", np.asarray(qa.integrate("x")) / np.exp(la)[:, None], np.asarray(qb.integrate("x")) / np.exp(lb)[:, None], tol=1e-7, facts=facts, symptom="slice_mismatch")
    return ok


# ---------------------------------------------------------------------------
# operation table
# ---------------------------------------------------------------------------
class Op:
    def __init__(self, name, setup, run, layout="same", Rs=None):
        self.name, self.setup, self.run, self.layout, self.Rs = name, setup, run, layout, Rs


def B(o):
    return ("batch", o)


def Rw(a):
    return ("rows", np.asarray(a))


def Fx(o):
    return ("fixed", o)


def slice_operands(ops, idx):
    out = {}
    for k, (kind, v) in ops.items():
        if kind == "batch":
            out[k] = (kind, v.slice(jnp.array(idx)))
        elif kind == "rows":
            out[k] = (kind, v[np.array(idx)])
        else:
            out[k] = (kind, v)
    return out


def vals(ops):
    return {k: (J(v) if kind == "rows" else v) for k, (kind, v) in ops.items()}


def norm_idx(idx, R):
    return [i % R for i in idx]


def layout_index(layout, idx, R, meta):
    idx = norm_idx(idx, R)
    if layout == "same":
        return idx
    if layout == "left":  # products, left operand sliced: i*R2+j
        R2 = meta["R2"]
        return [i * R2 + j for i in idx for j in range(R2)]
    if layout == "right":  # products, right operand sliced
        R1 = meta["R1"]
        return [i * R + j for i in range(R1) for j in idx]
    if layout == "rN":  # conditioning on N points: r*N+n
        N = meta["N"]
        return [r * N + n for r in idx for n in range(N)]
    raise KeyError(layout)


def mk_meas(kind, D, R, vi, seed, tag=()):
    diag = "Diag" in kind
    if "PDF" in kind:
        return objs.mk_pdf(kind, objs.spd_batch(D, R, vi, seed, ("c12",) + tag, diag=diag), objs.vec_batch(D, R, vi, seed, ("c12",) + tag))
    return objs.mk_measure(kind, objs.spd_batch(D, R, vi, seed, ("c12",) + tag, diag=diag), objs.vec_batch(D, R, vi, seed, ("c12",) + tag), objs.lnb_batch(R, vi, seed, ("c12",) + tag))


INTEGRATE = {
    "1": {}, "x": {}, "xx'": {},
    "(Ax+a)": dict(A=("K",), a=("K",)),
    "(Ax+a)'(Bx+b)": dict(A=("K",), a=("K",), B=("K",), b=("K",)),
    "(Ax+a)(Bx+b)'": dict(A=("K",), a=("K",), B=("L",), b=("L",)),
    "(Ax+a)(Bx+b)'(Cx+c)": dict(A=("K",), a=("K",), B=("L",), b=("L",), C=("L",), c=("L",)),
    "(Ax+a)'(Bx+b)(Cx+c)'": dict(A=("K",), a=("K",), B=("K",), b=("K",), C=("L",), c=("L",)),
    "x(A'x + a)x'": dict(A=(1,), a=(1,)),
    "xb'xx'": dict(b=("D",)),
    "(Ax+a)'(Bx+b)(Cx+c)'(Dx+d)": dict(A=("K",), a=("K",), B=("K",), b=("K",), C=("L",), c=("L",), D=("L",), d=("L",)),
    "(Ax+a)(Bx+b)'(Cx+c)(Dx+d)'": dict(A=("K",), a=("K",), B=("L",), b=("L",), C=("L",), c=("L",), D=("M",), d=("M",)),
}


def build_table(D, seed, vi):
    T = []
    x = al.points(3, D, salt=vi)
    FK = ["ConjugateFactor", "OneRankFactor", "LinearFactor", "ConstantFactor"]
    MK = ["GaussianMeasure", "GaussianDiagMeasure", "GaussianPDF", "GaussianDiagPDF"]

    def fac(kind, R, tag=()):
        return objs.mk_factor(kind, D, R, vi, seed, tag=("c12f",) + tag)[0]

    # ---- factors --------------------------------------------------------
    for fk in FK:
        T.append(Op("factor.%s.evaluate_ln" % fk, lambda R, fk=fk: (dict(f=B(fac(fk, R))), {}), lambda o: o["f"].evaluate_ln(J(x))))
        T.append(Op("factor.%s.evaluate_elementwise" % fk, lambda R, fk=fk: (dict(f=B(fac(fk, R)), x=Rw(al.points(R, D, salt=2))), {}), lambda o: o["f"].evaluate_ln(o["x"], element_wise=True)))
        for uf in (False, True):
            for R1 in (1, 2):
                for warm in (0, 1):
                    def setup(R, fk=fk, R1=R1, warm=warm):
                        u = mk_meas("GaussianMeasure", D, R1, vi, seed, ("mulR",))
                        if warm:
                            u.integrate("x")
                        return dict(f=B(fac(fk, R)), u=Fx(u)), dict(R1=R1)
                    T.append(Op("measure.multiply(%s).slice_factor.uf%d.R1_%d.warm%d" % (fk, uf, R1, warm), setup, lambda o, uf=uf: copy.copy(o["u"]).multiply(o["f"], update_full=uf), layout="right"))
            for warm in (0, 1):
                def setup(R, fk=fk, warm=warm):
                    u = mk_meas("GaussianMeasure", D, R, vi, seed, ("hadL",))
                    if warm:
                        u.integrate("x")
                    return dict(f=B(fac(fk, R)), u=B(u)), {}
                T.append(Op("measure.hadamard(%s).slice_both.uf%d.warm%d" % (fk, uf, warm), setup, lambda o, uf=uf: o["u"].hadamard(o["f"], update_full=uf)))
                def setup1(R, fk=fk, warm=warm):
                    u = mk_meas("GaussianMeasure", D, 1, vi, seed, ("had1",))
                    if warm:
                        u.integrate("x")
                    return dict(f=B(fac(fk, R)), u=Fx(u)), {}
                T.append(Op("measure1.hadamard(%s).slice_factor.uf%d.warm%d" % (fk, uf, warm), setup1, lambda o, uf=uf: copy.copy(o["u"]).hadamard(o["f"], update_full=uf)))
        T.append(Op("integrate_log_factor(%s).slice_both" % fk, lambda R, fk=fk: (dict(f=B(fac(fk, R)), u=B(mk_meas("GaussianMeasure", D, R, vi, seed, ("ilf",)))), {}), lambda o: o["u"].integrate("log u(x)", factor=o["f"])))
        T.append(Op("integrate_log_factor(%s).slice_measure" % fk, lambda R, fk=fk: (dict(f=Fx(fac(fk, 1)), u=B(mk_meas("GaussianMeasure", D, R, vi, seed, ("ilf",)))), {}), lambda o: o["u"].integrate("log u(x)", factor=o["f"])))
    # ---- measures / densities ---------------------------------------------
    for mk in MK:
        def ms(R, mk=mk, warm=0):
            u = mk_meas(mk, D, R, vi, seed, (mk,))
            if warm:
                u.integrate("x")
            return dict(u=B(u)), {}
        T.append(Op("%s.evaluate_ln" % mk, ms, lambda o: o["u"].evaluate_ln(J(x))))
        T.append(Op("%s.evaluate" % mk, ms, lambda o: o["u"].evaluate(J(x))))
        for q in ("integral", "log_integral", "integral_light", "log_integral_light"):
            T.append(Op("%s.%s" % (mk, q), ms, lambda o, q=q: getattr(o["u"], q)()))
        T.append(Op("%s.get_density" % mk, ms, lambda o: o["u"].get_density()))
        T.append(Op("%s.slice_then_slice" % mk, ms, lambda o: o["u"].slice(jnp.arange(o["u"].R)[::-1]).slice(jnp.arange(o["u"].R)[::-1])))
        if "PDF" not in mk:
            def norm(o):
                u = copy.copy(o["u"])
                u.normalize()
                return u
            T.append(Op("%s.normalize" % mk, ms, norm))
        for fk in FK + ["GaussianMeasure"]:
            for uf in (False, True):
                for warm in (0, 1):
                    for R2 in (1, 2):
                        T.append(Op("%s.multiply(%s).slice_measure.uf%d.warm%d.R2_%d" % (mk, fk, uf, warm, R2), (lambda R, mk=mk, warm=warm, fk=fk, R2=R2: (dict(u=ms(R, mk, warm)[0]["u"], f=Fx(objs.mk_factor(fk, D, R2, vi, seed, tag=("c12f2",))[0])), dict(R2=R2))), lambda o, uf=uf: o["u"].multiply(o["f"], update_full=uf), layout="left"))
                    T.append(Op("%s.hadamard(%s1).slice_measure.uf%d.warm%d" % (mk, fk, uf, warm), (lambda R, mk=mk, warm=warm, fk=fk: (dict(u=ms(R, mk, warm)[0]["u"], f=Fx(objs.mk_factor(fk, D, 1, vi, seed, tag=("c12f2",))[0])), {})), lambda o, uf=uf: o["u"].hadamard(o["f"], update_full=uf)))
        # integrals, coefficients shared and per component
        dims = dict(K=3, L=2, M=1, D=D)
        for key, slots in INTEGRATE.items():
            for mode in ("shared", "percomp"):
                if mode == "percomp" and not slots:
                    continue
                def setup(R, mk=mk, key=key, slots=slots, mode=mode):
                    ops = dict(u=B(mk_meas(mk, D, R, vi, seed, (mk, "int"))))
                    for nm, (dsym,) in slots.items():
                        n = dims[dsym] if isinstance(dsym, str) else dsym
                        ismat = nm.isupper()
                        Rn = R if mode == "percomp" else 1
                        if key == "xb'xx'":
                            arr = np.array([al.int_vector(D, salt=r + 1) for r in range(Rn)]) * 0.5
                        elif ismat:
                            arr = np.array([al.int_matrix(n, D, salt=r + ord(nm)) for r in range(Rn)]) * 0.5
                        else:
                            arr = np.array([al.int_vector(n, salt=r + ord(nm)) for r in range(Rn)]) * 0.5
                        arg = nm + ("_mat" if ismat else "_vec")
                        ops[arg] = Rw(arr) if mode == "percomp" else Fx(J(arr[0]))
                    return ops, {}
                T.append(Op("%s.integrate[%s].%s" % (mk, key, mode), setup, lambda o, key=key: o["u"].integrate(key, **{k: v for k, v in o.items() if k != "u"})))
        if "PDF" in mk:
            T.append(Op("%s.entropy" % mk, ms, lambda o: o["u"].entropy()))
            T.append(Op("%s.kl(both)" % mk, lambda R, mk=mk: (dict(u=B(mk_meas(mk, D, R, vi, seed, (mk,))), q=B(mk_meas(mk, D, R, vi + 1, seed, (mk, "q")))), {}), lambda o: o["u"].kl_divergence(o["q"])))
            T.append(Op("%s.kl(other single)" % mk, lambda R, mk=mk: (dict(u=B(mk_meas(mk, D, R, vi, seed, (mk,))), q=Fx(mk_meas(mk, D, 1, vi + 1, seed, (mk, "q")))), {}), lambda o: o["u"].kl_divergence(o["q"])))
            T.append(Op("%s.kl(self single)" % mk, lambda R, mk=mk: (dict(u=Fx(mk_meas(mk, D, 1, vi, seed, (mk,))), q=B(mk_meas(mk, D, R, vi + 1, seed, (mk, "q")))), {}), lambda o: o["u"].kl_divergence(o["q"])))
            if D >= 2:
                T.append(Op("%s.get_marginal" % mk, ms, lambda o: o["u"].get_marginal(jnp.array([D - 1, 0]))))
                T.append(Op("%s.condition_on" % mk, ms, lambda o: o["u"].condition_on(jnp.array([D - 1]))))
                T.append(Op("%s.condition_on_explicit" % mk, ms, lambda o: o["u"].condition_on_explicit(jnp.array([0]), jnp.array(list(range(D - 1, 0, -1))))))
            if "Diag" not in mk:
                T.append(Op("%s.linear_sum.shared" % mk, ms, lambda o: o["u"].get_density_of_linear_sum(J(al.int_matrix(D, D, salt=3)[None]), J(al.int_vector(D, salt=1)[None]))))
                T.append(Op("%s.linear_sum.percomp" % mk, lambda R, mk=mk: (dict(u=B(mk_meas(mk, D, R, vi, seed, (mk,))), W=Rw(np.array([al.int_matrix(1, D, salt=r) for r in range(R)])), b=Rw(np.array([al.int_vector(1, salt=r) for r in range(R)]))), {}), lambda o: o["u"].get_density_of_linear_sum(o["W"], o["b"])))
    # ---- linear conditionals ----------------------------------------------------
    for ck in ("full", "diag", "identity", "identity_diag"):
        for (Dx, Dy) in ((D, D), (D, 1)) if not ck.startswith("identity") else ((D, D),):
            def cs(R, ck=ck, Dx=Dx, Dy=Dy):
                M = objs.mat_batch(Dy, Dx, R, vi, seed, ("c12c", ck))
                b = objs.vecn_batch(Dy, R, vi, seed, ("c12c", ck))
                Sy = objs.spd_batch(Dy, R, vi, seed, ("c12c", ck), diag="diag" in ck)
                return objs.mk_cond(ck, M, b, Sy)[0]
            nm = "cond.%s.Dx%d.Dy%d" % (ck, Dx, Dy)
            xx = al.points(2, Dx, salt=1)
            T.append(Op(nm + ".condition_on_x", lambda R, cs=cs: (dict(c=B(cs(R))), dict(N=2)), lambda o, xx=xx: o["c"].condition_on_x(J(xx)), layout="rN"))
            T.append(Op(nm + ".get_conditional_mu", lambda R, cs=cs: (dict(c=B(cs(R))), {}), lambda o, xx=xx: o["c"].get_conditional_mu(J(xx))))
            T.append(Op(nm + ".set_y(paired)", lambda R, cs=cs, Dy=Dy: (dict(c=B(cs(R)), y=Rw(al.points(R, Dy, salt=3))), {}), lambda o: o["c"].set_y(o["y"]), Rs=[2, 3, 4, 5, 6]))
            T.append(Op(nm + ".set_y(one cond)", lambda R, cs=cs, Dy=Dy: (dict(c=Fx(cs(1)), y=Rw(al.points(R, Dy, salt=3))), {}), lambda o: o["c"].set_y(o["y"])))
            for tr in ("affine_joint_transformation", "affine_marginal_transformation", "affine_conditional_transformation", "conditional_entropy", "mutual_information"):
                T.append(Op(nm + "." + tr + ".slice_cond", lambda R, cs=cs, Dx=Dx: (dict(c=B(cs(R)), p=Fx(mk_meas("GaussianPDF", Dx, 1, vi, seed, ("c12p",)))), {}), lambda o, tr=tr: getattr(o["c"], tr)(o["p"])))
                T.append(Op(nm + "." + tr + ".slice_prior", lambda R, cs=cs, Dx=Dx: (dict(c=Fx(cs(1)), p=B(mk_meas("GaussianPDF", Dx, R, vi, seed, ("c12p",)))), {}), lambda o, tr=tr: getattr(o["c"], tr)(o["p"])))
            T.append(Op(nm + ".integrate_log_conditional.slice_q", lambda R, cs=cs, Dx=Dx, Dy=Dy: (dict(c=Fx(cs(1)), q=B(mk_meas("GaussianPDF", Dx + Dy, R, vi, seed, ("c12q",)))), {}), lambda o: o["c"].integrate_log_conditional(o["q"])))
            if ck in ("full", "diag"):
                T.append(Op(nm + ".integrate_log_conditional.slice_both", lambda R, cs=cs, Dx=Dx, Dy=Dy: (dict(c=B(cs(R)), q=B(mk_meas("GaussianPDF", Dx + Dy, R, vi, seed, ("c12q",)))), {}), lambda o: o["c"].integrate_log_conditional(o["q"])))
            T.append(Op(nm + ".integrate_log_conditional_y.slice_px", lambda R, cs=cs, Dx=Dx, Dy=Dy: (dict(c=Fx(cs(1)), p=B(mk_meas("GaussianPDF", Dx, R, vi, seed, ("c12p",))), y=Rw(al.points(R, Dy, salt=4))), {}), lambda o: o["c"].integrate_log_conditional_y(o["p"], y=o["y"])))
    # NN-controlled conditional: batch through the control rows
    def nn(R):
        M = objs.mat_batch(D, D, max(R, 1), vi, seed, ("c12nn",))
        b = objs.vecn_batch(D, max(R, 1), vi, seed, ("c12nn",))
        Sy = objs.spd_batch(D, 1, vi, seed, ("c12nn",))
        o, kw, _ = objs.mk_cond("nncontrol", M, b, np.tile(Sy, (max(R, 1), 1, 1)))
        return o, np.asarray(kw["u"])
    xx = al.points(2, D, salt=1)
    T.append(Op("cond.nncontrol.condition_on_x_u.slice_u", lambda R: (dict(c=Fx(nn(R)[0]), u=Rw(nn(R)[1])), dict(N=2)), lambda o, xx=xx: o["c"].condition_on_x_u(J(xx), o["u"]), layout="rN", Rs=[1, 2, 3]))
    T.append(Op("cond.nncontrol.set_y.slice_u_y", lambda R: (dict(c=Fx(nn(R)[0]), u=Rw(nn(R)[1]), y=Rw(al.points(R, D, salt=3))), {}), lambda o: o["c"].set_y(o["y"], u=o["u"]), Rs=[2, 3]))
    for tr in ("affine_joint_transformation", "affine_marginal_transformation", "affine_conditional_transformation", "conditional_entropy", "mutual_information"):
        T.append(Op("cond.nncontrol.%s.slice_u" % tr, lambda R: (dict(c=Fx(nn(R)[0]), u=Rw(nn(R)[1]), p=Fx(mk_meas("GaussianPDF", D, 1, vi, seed, ("c12p",)))), {}), lambda o, tr=tr: getattr(o["c"], tr)(o["p"], u=o["u"]), Rs=[1, 2, 3]))
        T.append(Op("cond.nncontrol.%s.slice_prior" % tr, lambda R: (dict(c=Fx(nn(1)[0]), u=Fx(J(nn(1)[1])), p=B(mk_meas("GaussianPDF", D, R, vi, seed, ("c12p",)))), {}), lambda o, tr=tr: getattr(o["c"], tr)(o["p"], u=o["u"])))
    # ---- approximate conditionals (R_cond = 1; the batch is on p(x) / x / y) ----------
    specs = [dict(kind="LRBF", Dx=D, Dy=2, Dk=2), dict(kind="LSEM", Dx=D, Dy=2, Dk=2)] + [dict(kind="Hetero" + l, link=l, Dx=D, Dy=2, Da=2, Dk=2) for l in ("Exp", "CoshM1", "Heaviside", "ReLU")]
    for sp in specs:
        nm = "approx.%s" % sp["kind"]
        mkc = lambda sp=sp: _graph.build_approx(sp, seed, vi)
        xx = al.points(3, D, salt=2)
        T.append(Op(nm + ".condition_on_x.slice_x", lambda R, mkc=mkc: (dict(c=Fx(mkc()), x=Rw(al.points(R, D, salt=2))), {}), lambda o: o["c"].condition_on_x(o["x"])))
        for tr in ("affine_joint_transformation", "affine_marginal_transformation", "affine_conditional_transformation"):
            T.append(Op(nm + "." + tr + ".slice_prior", lambda R, mkc=mkc: (dict(c=Fx(mkc()), p=B(mk_meas("GaussianPDF", D, R, vi, seed, ("c12ap",)))), {}), lambda o, tr=tr: getattr(o["c"], tr)(o["p"])))
        if sp["kind"] in ("LRBF", "LSEM"):
            T.append(Op(nm + ".integrate_log_conditional.slice_q", lambda R, mkc=mkc: (dict(c=Fx(mkc()), q=B(mk_meas("GaussianPDF", D + 2, R, vi, seed, ("c12aq",)))), {}), lambda o: o["c"].integrate_log_conditional(o["q"])))
            T.append(Op(nm + ".integrate_log_conditional_y.slice_px_y", lambda R, mkc=mkc: (dict(c=Fx(mkc()), p=B(mk_meas("GaussianPDF", D, R, vi, seed, ("c12ap",))), y=Rw(al.points(R, 2, salt=4))), {}), lambda o: o["c"].integrate_log_conditional_y(o["p"], y=o["y"])))
        else:
            T.append(Op(nm + ".integrate_log_conditional_y.slice_px_y", lambda R, mkc=mkc: (dict(c=Fx(mkc()), p=B(mk_meas("GaussianPDF", D, R, vi, seed, ("c12ap",))), y=Rw(al.points(R, 2, salt=4))), {}), lambda o: o["c"].integrate_log_conditional_y(o["p"], y=o["y"]), Rs=[1, 2]))
        if sp["kind"] in ("HeteroExp", "HeteroCoshM1", "HeteroReLU"):
            # prior components of very different widths (the first a million times narrower): the variational fixed point
            # of each entry converges at its own speed, the batch must not share a stopping decision
            def mixed_p(R):
                S_ = objs.spd_batch(D, R, vi, seed, ("c12mx",))
                m_ = objs.vec_batch(D, R, vi, seed, ("c12mx",)) * 0.5
                sc = np.array([2.0 ** -20 if r == 0 else 4.0 for r in range(R)])
                return objs.mk_pdf("GaussianPDF", S_ * sc[:, None, None], m_)
            T.append(Op(nm + ".integrate_log_conditional_y.slice_px_y.mixed_widths", lambda R, mkc=mkc, mixed_p=mixed_p: (dict(c=Fx(mkc()), p=B(mixed_p(R)), y=Rw(al.points(R, 2, salt=4))), {}), lambda o: o["c"].integrate_log_conditional_y(o["p"], y=o["y"]), Rs=[3]))
    # ---- truncated measures (no slice method: slice the base measure and the limits) -----
    for base in ("GaussianMeasure", "GaussianPDF"):
        def ts(R, base=base):
            u = mk_meas(base, 1, R, vi, seed, ("c12t",))
            lo = np.array([[-0.5 - 0.3 * r] for r in range(R)])
            hi = np.array([[1.0 + 0.5 * r] for r in range(R)])
            return dict(u=B(u), lo=Rw(lo), hi=Rw(hi)), {}
        for key, kw in (("1", {}), ("x", {}), ("x**2", {}), ("x**k", dict(k=3)), ("x**k", dict(k=0))):
            T.append(Op("truncated(%s).integrate[%s%s]" % (base, key, kw.get("k", "")), ts, lambda o, key=key, kw=kw: tmod.TruncatedGaussianMeasure(measure=o["u"], lower_limit=o["lo"], upper_limit=o["hi"]).integrate(key, **kw)))
        T.append(Op("truncated(%s).call" % base, ts, lambda o: tmod.TruncatedGaussianMeasure(measure=o["u"], lower_limit=o["lo"], upper_limit=o["hi"])(J(np.array([[-2.0], [0.1], [0.9], [3.0]])))))
        T.append(Op("truncated_pdf(%s).mean" % base, ts, lambda o: tmod.TruncatedGaussianPDF(measure=o["u"], lower_limit=o["lo"], upper_limit=o["hi"]).get_mean()))
        T.append(Op("truncated_pdf(%s).variance" % base, ts, lambda o: tmod.TruncatedGaussianPDF(measure=o["u"], lower_limit=o["lo"], upper_limit=o["hi"]).get_variance()))
        T.append(Op("truncated_pdf(%s).call" % base, ts, lambda o: tmod.TruncatedGaussianPDF(measure=o["u"], lower_limit=o["lo"], upper_limit=o["hi"])(J(np.array([[-2.0], [0.1], [0.9], [3.0]])))))
    return T


NSHARD = 47


def shards(tier, seed):
    out = []
    for D in BOUNDS[tier]["D"]:
        for vi in ([0] if tier == "quick" else [0, 100]):
            for k in range(NSHARD):
                out.append(dict(id="C12/D%d/v%d/part%02d" % (D, vi, k), D=D, vi=vi, part=k, cost=D, facts=dict(D=D)))
            out.append(dict(id="C12/D%d/v%d/update" % (D, vi), D=D, vi=vi, part="update", cost=1, facts=dict(D=D)))
    # light pass on another dimension / larger batches: single indices, the reversed range and one triple only
    for D in BOUNDS[tier].get("D_light", []):
        for k in range(NSHARD // 2):
            out.append(dict(id="C12/D%d/v0/light%02d" % (D, k), D=D, vi=0, part=k, nsh=NSHARD // 2, light=True, cost=D, facts=dict(D=D)))
    return out


def index_arrays(R, maxlen, extra=False):
    if extra:
        return [[i] for i in range(-R, R)] + [list(range(R))[::-1], [R - 1, 0, R // 2]]
    return al.slice_index_arrays(R, maxlen)


def run_shard(shard, ctx):
    tier, seed = shard["tier"], shard["seed"]
    D, vi = shard["D"], shard["vi"]
    Bd = BOUNDS[tier]
    if shard["part"] == "update":
        return run_update(shard, ctx)
    table = build_table(D, seed, vi)
    ctx.cmax("max_table_size", len(table))
    mine = [op for i, op in enumerate(table) if i % shard.get("nsh", NSHARD) == shard["part"]]
    light = shard.get("light", False)
    for op in mine:
        for R in (Bd["R_light"] if light else Bd["R"] + Bd.get("R_extra", [])):
            if op.Rs is not None and R not in op.Rs:
                continue
            extra = light or R in Bd.get("R_extra", [])
            facts = dict(op=op.name, R=R)
            ctx.case_desc = dict(op=op.name, R=R, idx="setup")
            with ctx.guard("op.full_call", facts) as g:
                ops, meta = op.setup(R)
                full = op.run(vals(ops))
            if not g.ok:
                continue
            for idx in index_arrays(R, Bd["idx_len"], extra):
                if not ctx.case(dict(op=op.name, R=R, idx=idx)):
                    continue
                f2 = dict(facts, idx=",".join(map(str, idx)), nidx=len(idx), repeated=len(set(i % R for i in idx)) < len(idx), negative=any(i < 0 for i in idx))
                with ctx.guard("op.sliced_call", f2) as g:
                    ops2, meta2 = op.setup(R)
                    part = op.run(vals(slice_operands(ops2, idx)))
                    ip = layout_index(op.layout, idx, R, meta)
                    ref = take(full, ip)
                if not g.ok:
                    continue
                same(ctx, "slice_commutes", ref, part, f2)
        if op is mine[0]:
            ctx.sample(dict(shard=shard["id"], op=op.name, layout=op.layout, example_idx=[-1, 0]))


QUERIES = [
    ("integrate1", lambda o: o.integrate("1")),
    ("integrate_x", lambda o: o.integrate("x")),
    ("integrate_xx", lambda o: o.integrate("xx'")),
    ("integrate_quad_outer", lambda o: o.integrate("(Ax+a)(Bx+b)'", A_mat=J(al.int_matrix(2, o.D, salt=1) * 0.5), a_vec=J(al.int_vector(2, salt=1) * 0.5))),
    ("integrate_xbxx", lambda o: o.integrate("xb'xx'", b_vec=J(al.int_vector(o.D, salt=2) * 0.5))),
    ("integrate_quartic", lambda o: o.integrate("(Ax+a)'(Bx+b)(Cx+c)'(Dx+d)", A_mat=J(al.int_matrix(2, o.D, salt=1) * 0.5), B_mat=J(al.int_matrix(2, o.D, salt=2) * 0.5), c_vec=J(al.int_vector(o.D, salt=1) * 0.5))),
    ("log_integral", lambda o: o.log_integral()),
    ("entropy", lambda o: o.entropy()),
    ("evaluate", lambda o: o.evaluate(J(al.points(2, o.D, salt=3)))),
    ("get_marginal", lambda o: o.get_marginal(jnp.array([0])).mu),
    ("kl", lambda o: o.kl_divergence(o.slice(jnp.array([0])))),
]


def run_update(shard, ctx):
    """update(idx, d) replaces exactly the addressed components."""
    tier, seed = shard["tier"], shard["seed"]
    D, vi = shard["D"], shard["vi"]
    for kind in ("GaussianPDF", "GaussianDiagPDF"):
        for R in BOUNDS[tier]["R"] + [4]:
            for idx in [[i] for i in range(R)] + ([[0, R - 1], [R - 1, 0]] if R >= 2 else []) + ([[1, 2]] if R >= 3 else []):
                if not ctx.case(dict(op="update", kind=kind, R=R, idx=idx)):
                    continue
                facts = dict(op="update", kind=kind, R=R, idx=",".join(map(str, idx)))
                p = mk_meas(kind, D, R, vi, seed, ("upd",))
                d = mk_meas(kind, D, len(idx), vi + 2, seed, ("updd",))
                # the object has been used before it is updated (every query that may leave something behind)
                for q in QUERIES:
                    q[1](p)
                before = {a: np.array(getattr(p, a)) for a in ATTRS if getattr(p, a, None) is not None}
                with ctx.guard("update.call", facts) as g:
                    p.update(jnp.array(idx), d)
                if not g.ok:
                    continue
                others = [r for r in range(R) if r not in idx]
                for a, v in before.items():
                    now = np.asarray(getattr(p, a))
                    if now.shape != v.shape:
                        ctx.fail("update.shape", "shape", observed=list(now.shape), expected=list(v.shape), facts=dict(facts, attr=a))
                        continue
                    if others and not np.array_equal(now[others], v[others]):
                        ctx.fail("update.untouched_components", "changed", facts=dict(facts, attr=a))
                    dv = getattr(d, a, None)
                    if dv is not None:
                        ctx.close("update.addressed_components." + a, now[idx], np.asarray(dv), facts=dict(facts, attr=a))
                x = al.points(2, D, salt=1)
                ref = np.array(np.asarray(mk_meas(kind, D, R, vi, seed, ("upd",)).evaluate_ln(J(x))))
                ref[idx] = np.asarray(d.evaluate_ln(J(x)))
                ctx.close("update.value", np.asarray(p.evaluate_ln(J(x))), ref, facts=facts)
                # every query on the updated object equals the query on a freshly built object with the same components
                Sig = np.array(np.asarray(mk_meas(kind, D, R, vi, seed, ("upd",)).Sigma))
                mu = np.array(np.asarray(mk_meas(kind, D, R, vi, seed, ("upd",)).mu))
                Sig[idx] = np.asarray(d.Sigma)
                mu[idx] = np.asarray(d.mu)
                fresh = objs.mk_pdf(kind, Sig, mu)
                for qn, qf in QUERIES:
                    with ctx.guard("update.then_query." + qn, facts):
                        ctx.close("update.then_query." + qn, np.asarray(qf(p)), np.asarray(qf(fresh)), facts=dict(facts, query=qn), symptom="stale_after_update")
