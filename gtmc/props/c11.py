"""C11 -- Bayesian updating is path independent (posterior and evidence).

Regression: BFS over the subset lattice of absorbed observations (all N! orders,
confluence on every merge); in every state routes (a) sequential, (b) joint +
coordinate conditioning, (c) product of likelihood factors are compared with the
NumPy batch posterior / log marginal likelihood.  Kalman: filtering histories vs a
dense joint over all states and observations assembled in NumPy."""
import itertools
import time

import numpy as np
from jax import numpy as jnp

from gaussian_toolbox import conditional, factor

from .. import alphabet as al
from .. import bfs, objs
from .. import refmodel as rm

J = jnp.asarray

PROPERTY = "C11"
LEVEL = "model_checking"
TECHNIQUE = "explicit-state BFS over the subset lattice of absorbed observations executed with the real conditional/measure methods (every update order, confluence on merges), three routes compared with a NumPy batch posterior in every state; Kalman histories vs dense NumPy joint"
RULE = (
    "regression: states = subsets S of N observations (2^N), transitions = absorb i not in S via conditional transformation + condition_on_x (N*2^(N-1) transitions = all N! orders); "
    "in every state posterior (mu,Sigma) and accumulated predictive log-density vs NumPy batch posterior / ln N(y_S), route (b) stacked joint + condition_on, route (c) set_y().product(), prior*factor, get_density, log_integral; "
    "state-space: (A,b,Q,C,d,R) from the catalogue, Dz,Dx in {1,2} incl. Dx!=Dz, T steps, filtered (mu_t,Sigma_t) and cumulative evidence at every t vs dense joint; also with a batch of priors. "
    "distinct state = (lattice/filter id, subset | t)"
)
ASSUMPTIONS = [
    "real-valued parameters on the finite catalogue + VERIF_SEED-indexed generic reals (cond<=1e3) only",
    "N<=4 observations (thorough 5), Dw<=3, Dy<=2; T<=5 (thorough 12)",
    "route (c) inherits known finding F3 (set_y normaliser) when Dy != Dw: evidence off by |S|(Dw-Dy)/2 ln 2pi, posterior unaffected",
]
BOUNDS = {"quick": dict(N=4, Dw=[1, 2, 3], Dy=[1, 2], T=5), "thorough": dict(N=6, Dw=[1, 2, 3, 4], Dy=[1, 2, 3], T=16)}
BUDGET = {"quick": 600, "thorough": 3600}


def shards(tier, seed):
    out = []
    B = BOUNDS[tier]
    for Dw in B["Dw"]:
        for Dy in B["Dy"]:
            for vi in ([0, 100] if tier == "quick" else [0, 1, 100, 101, 102, 103, 104, 105]):
                out.append(dict(id="C11/reg/Dw%d.Dy%d/v%d" % (Dw, Dy, vi), part="reg", Dw=Dw, Dy=Dy, vi=vi, N=B["N"], cost=Dw * 4, facts=dict(Dx=Dw, Dy=Dy, kind="full")))
    for Dz in (1, 2):
        for Dx in (1, 2):
            for Rp in (1, 2):
                for vi in ([0, 100] if tier == "quick" else [0, 1, 100, 101, 102, 103, 104, 105]):
                    out.append(dict(id="C11/kalman/Dz%d.Dx%d/Rp%d/v%d" % (Dz, Dx, Rp, vi), part="kalman", Dz=Dz, Dx=Dx, Rp=Rp, vi=vi, T=B["T"], cost=3, facts=dict(Dz=Dz, Dx=Dx, Rp=Rp)))
    return out


# ---------------------------------------------------------------------------
class State:
    def __init__(self, post, ev, S, chains=None):
        self.post, self.ev, self.S = post, ev, S
        self.chains = chains or {}


class RegSystem:
    def __init__(self, shard, ctx):
        self.sh, self.ctx = shard, ctx
        Dw, Dy, vi, seed, N = shard["Dw"], shard["Dy"], shard["vi"], shard["seed"], shard["N"]
        tag = ("c11", Dw, Dy)
        self.m0 = objs.vec_batch(Dw, 1, vi, seed, tag)[0]
        self.S0 = objs.spd_batch(Dw, 1, vi, seed, tag)[0]
        self.M = [objs.mat_batch(Dy, Dw, 1, (vi if vi >= 100 else 0), seed, tag + ("M", i))[0] * (1.0 if vi >= 100 else 1.0 / (1 + i)) for i in range(N)]
        if vi < 100:
            self.M = [al.int_matrix(Dy, Dw, salt=i * 2 + vi) for i in range(N)]
        self.b = [al.int_vector(Dy, salt=i + vi) * 0.5 for i in range(N)]
        self.Sy = [objs.spd_batch(Dy, 1, vi + i, seed, tag + ("Sy", i))[0] for i in range(N)]
        self.y = [al.points(1, Dy, salt=i + vi)[0] for i in range(N)]
        self.N = N

    def cond(self, idx):
        idx = list(idx)
        return conditional.ConditionalGaussianPDF(M=J(np.array([self.M[i] for i in idx])), b=J(np.array([self.b[i] for i in idx])), Sigma=J(np.array([self.Sy[i] for i in idx])))

    def roots(self):
        def build():
            prior = lambda: objs.mk_measure("GaussianMeasure", *[a[None] for a in rm.moment_to_nat(self.m0, self.S0)])
            chains = {"setyT": prior(), "setyAlt": prior(), "setyHadT": prior()}
            if len(self.b[0]) == 1:
                chains.update({"rank1T": prior(), "rank1Alt": prior(), "rank1HadT": prior(), "setyHadAlt": prior()})
            return State(objs.mk_pdf("GaussianPDF", self.S0[None], self.m0[None]), 0.0, frozenset(), chains), dict(S=frozenset())

        return [("prior", build)]

    def transitions(self, obj, model):
        out = []
        for i in range(self.N):
            if i in model["S"]:
                continue

            def ap(o, i=i):
                c = self.cond([i])
                yi = J(self.y[i][None])
                pred = c.affine_marginal_transformation(o.post)
                # the predictive log-density through both evaluation conventions (all pairs / element-wise), alternately
                ev = o.ev + (float(np.asarray(pred.evaluate_ln(yi))[0, 0]) if i % 2 == 0 else float(np.asarray(pred.evaluate_ln(yi, element_wise=True))[0]))
                post = c.affine_conditional_transformation(o.post).condition_on_x(yi)
                # route (c'): the likelihood factors multiplied in one at a time, in this order, with covariance
                # updates requested always / alternately; scalar observations also as hand-built rank-one factors
                chains = {}
                for name, m in o.chains.items():
                    uf = True if name.endswith("T") else (i % 2 == 0)
                    if name.startswith("sety"):
                        f = c.set_y(yi)
                    else:
                        g_ = 1.0 / self.Sy[i][0, 0]
                        r_ = self.y[i][0] - self.b[i][0]
                        v_ = self.M[i][0]
                        f = factor.OneRankFactor(v=J(v_[None]), g=J(np.array([g_])), nu=J((g_ * r_ * v_)[None]), ln_beta=J(np.array([-0.5 * g_ * r_ * r_ - 0.5 * np.log(2 * np.pi * self.Sy[i][0, 0])])))
                    # (one prior component, one factor entry: the element-wise product is the same route through hadamard)
                    chains[name] = m.hadamard(f, update_full=uf) if "Had" in name else m.multiply(f, update_full=uf)
                return State(post, ev, o.S | {i}, chains)

            out.append(("absorb:%d" % i, ap, (lambda mm, i=i: dict(S=mm["S"] | {i}))))
        return out

    def batch(self, S):
        """NumPy batch posterior and log marginal likelihood of y_S."""
        S = sorted(S)
        if not S:
            return self.m0, self.S0, 0.0
        M = np.concatenate([self.M[i] for i in S], axis=0)
        b = np.concatenate([self.b[i] for i in S])
        y = np.concatenate([self.y[i] for i in S])
        Dy = len(self.b[0])
        Sy = np.zeros((len(S) * Dy, len(S) * Dy))
        for k, i in enumerate(S):
            Sy[k * Dy:(k + 1) * Dy, k * Dy:(k + 1) * Dy] = self.Sy[i]
        my, Syy = rm.pushforward(self.m0, self.S0, M, b)
        Syy = Syy + Sy
        ev = rm.gauss_logpdf(y, my, Syy)[0]
        Mp, bp, Sp = rm.posterior(self.m0, self.S0, M, b, Sy)
        return Mp @ y + bp, Sp, ev

    def key(self, obj, model):
        return tuple(sorted(model["S"]))

    def check_state(self, ctx, obj, model, hist):
        S = sorted(model["S"])
        mu, Sig, ev = self.batch(S)
        facts = dict(nabsorbed=len(S), order=",".join(h.split(":")[1] for h in hist[1]), nterms=len(S), residual_constant=True)
        ok = ctx.close("routeA.mu", np.asarray(obj.post.mu)[0], mu, facts=facts)
        ok &= ctx.close("routeA.Sigma", np.asarray(obj.post.Sigma)[0], Sig, facts=facts)
        ok &= ctx.close("routeA.evidence", np.array([obj.ev]), np.array([ev]), facts=facts)
        if set(obj.S) != set(S):
            ctx.fail("routeA.bookkeeping", "value", facts=facts)
        for name, m in obj.chains.items():
            import copy as _copy

            mm = _copy.copy(m)
            with ctx.guard("chain." + name, facts):
                site = "set_y.chain_evidence." + name if name.startswith("sety") else "rank1.chain_evidence." + name
                # (not folded into `ok`: a known finding on this route must not stop the expansion of the lattice)
                ctx.close(site, np.asarray(mm.log_integral()), np.array([ev]), facts=facts)
                dens = mm.get_density()
                ctx.close("chain.%s.mu" % name, np.asarray(dens.mu)[0], mu, facts=facts)
                ctx.close("chain.%s.Sigma" % name, np.asarray(dens.Sigma)[0], Sig, facts=facts)
        if not S:
            return ok
        # the order of absorption that reached this state first is hist; routes (b), (c) on the set S
        Dw, Dy = len(self.m0), len(self.b[0])
        prior = objs.mk_pdf("GaussianPDF", self.S0[None], self.m0[None])
        with ctx.guard("routeB.call", facts):
            Mst = np.concatenate([self.M[i] for i in S], axis=0)
            bst = np.concatenate([self.b[i] for i in S])
            yst = np.concatenate([self.y[i] for i in S])
            n = len(S) * Dy
            Sst = np.zeros((n, n))
            for k, i in enumerate(S):
                Sst[k * Dy:(k + 1) * Dy, k * Dy:(k + 1) * Dy] = self.Sy[i]
            cst = conditional.ConditionalGaussianPDF(M=J(Mst[None]), b=J(bst[None]), Sigma=J(Sst[None]))
            joint = cst.affine_joint_transformation(prior)
            pb = joint.condition_on(jnp.arange(Dw, Dw + n)).condition_on_x(J(yst[None]))
            ctx.close("routeB.mu", np.asarray(pb.mu)[0], mu, facts=facts)
            ctx.close("routeB.Sigma", np.asarray(pb.Sigma)[0], Sig, facts=facts)
            # the same coordinate conditioning with the free (parameter) coordinates requested explicitly in REVERSED order
            # and the observed ones in a rotated order
            fx = list(range(Dw))[::-1]
            fy = list(range(Dw, Dw + n))
            fy = fy[1:] + fy[:1]
            pe = joint.condition_on_explicit(jnp.array(fy), jnp.array(fx)).condition_on_x(J(yst[[k - Dw for k in fy]][None]))
            ctx.close("routeB.explicit.mu", np.asarray(pe.mu)[0], mu[fx], facts=facts)
            ctx.close("routeB.explicit.Sigma", np.asarray(pe.Sigma)[0], Sig[np.ix_(fx, fx)], facts=facts)
            evb = float(np.asarray(joint.get_marginal(jnp.arange(Dw, Dw + n)).evaluate_ln(J(yst[None])))[0, 0])
            ctx.close("routeB.evidence", np.array([evb]), np.array([ev]), facts=facts)
        with ctx.guard("routeC.call", facts):
            cS = self.cond(S)
            lik = cS.set_y(J(np.array([self.y[i] for i in S]))).product()
            pm = prior * lik
            dens = pm.get_density()
            ctx.close("routeC.mu", np.asarray(dens.mu)[0], mu, facts=facts)
            ctx.close("routeC.Sigma", np.asarray(dens.Sigma)[0], Sig, facts=facts)
            ctx.close("set_y.routeC_evidence", np.asarray(pm.log_integral()), np.array([ev]), facts=facts)
            # "... and normalising": the same measure, evidence taken first, then normalised in place, then queried again
            ex = np.asarray(pm.integrate("x"))
            pm.normalize()
            ctx.close("routeC.normalized.log_integral", np.asarray(pm.log_integral()), np.zeros(1), tol=1e-8, facts=facts)
            ctx.close("routeC.normalized.integral", np.asarray(pm.integrate("1")), np.ones(1), facts=facts)
            ctx.close("routeC.normalized.mean", np.asarray(pm.integrate("x"))[0], mu, facts=facts)
            ctx.close("routeC.normalized.second_moment", np.asarray(pm.integrate("xx'"))[0], Sig + np.outer(mu, mu), facts=facts)
            ctx.close("routeC.normalized.value", np.asarray(pm.evaluate_ln(J(mu[None])))[0], rm.gauss_logpdf(mu[None], mu, Sig), facts=facts)
        return ok


def run_reg(shard, ctx):
    sys_ = RegSystem(shard, ctx)
    st = bfs.explore(sys_, ctx, shard["N"], deadline=time.time() + 500)
    ctx.count("states", st["states"])
    ctx.count("transitions", st["transitions"])
    ctx.count("traces_validated_against_impl", st["replays"])
    ctx.count("merges", st["merges"])
    ctx.count("capped", st["capped"])
    ctx.cmax("max_depth_completed", st["depth_completed"])
    if shard["vi"] == 0:
        ctx.sample(dict(shard=shard["id"], states=st["states"], transitions=st["transitions"], merges=st["merges"], M=sys_.M, b=sys_.b, Sigma=sys_.Sy, y=sys_.y, prior_mu=sys_.m0, prior_Sigma=sys_.S0))


# ---------------------------------------------------------------------------
def run_kalman(shard, ctx):
    Dz, Dx, Rp, vi, seed, T = (shard[k] for k in ("Dz", "Dx", "Rp", "vi", "seed", "T"))
    tag = ("c11k", Dz, Dx)
    A = objs.mat_batch(Dz, Dz, 1, vi, seed, tag + ("A",))[0]
    A = A / (1.2 * max(1.0, np.max(np.abs(np.linalg.eigvals(A)))))
    bz = objs.vecn_batch(Dz, 1, vi, seed, tag + ("b",))[0] * 0.5
    Q = objs.spd_batch(Dz, 1, vi, seed, tag + ("Q",))[0]
    C = objs.mat_batch(Dx, Dz, 1, vi + 1, seed, tag + ("C",))[0]
    d = objs.vecn_batch(Dx, 1, vi + 1, seed, tag + ("d",))[0] * 0.5
    Rn = objs.spd_batch(Dx, 1, vi + 1, seed, tag + ("R",))[0]
    m0 = objs.vec_batch(Dz, Rp, vi, seed, tag + ("m0",))
    S0 = objs.spd_batch(Dz, Rp, vi, seed, tag + ("S0",))
    xs = al.points(T, Dx, salt=vi)
    trans = conditional.ConditionalGaussianPDF(M=J(A[None]), b=J(bz[None]), Sigma=J(Q[None]))
    emis = conditional.ConditionalGaussianPDF(M=J(C[None]), b=J(d[None]), Sigma=J(Rn[None]))
    filt = objs.mk_pdf("GaussianPDF", S0, m0)
    filt_pair = objs.mk_pdf("GaussianPDF", S0, m0)
    emis_pair = conditional.ConditionalGaussianPDF(M=J(np.concatenate([np.zeros((Dx, Dz)), C], axis=1)[None]), b=J(d[None]), Sigma=J(Rn[None]))
    ev = np.zeros(Rp)
    ev_pair = np.zeros(Rp)
    ctx.count("states")
    for t in range(1, T + 1):
        if not ctx.case(dict(t=t)):
            continue
        facts = dict(t=t)
        with ctx.guard("kalman.step", facts) as g:
            pred = trans.affine_marginal_transformation(filt)
            py = emis.affine_marginal_transformation(pred)
            ev = ev + np.asarray(py.evaluate_ln(J(xs[t - 1][None])))[:, 0]
            filt = emis.affine_conditional_transformation(pred).condition_on_x(J(xs[t - 1][None]))
        if not g.ok:
            return
        # the same step through the pairwise joint p(z_{t-1}, z_t | x_{1:t-1}) used as a prior of the observation model
        with ctx.guard("kalman.pair_step", facts) as g2:
            pair = trans.affine_joint_transformation(filt_pair)  # over (z_{t-1}, z_t)
            py2 = emis_pair.affine_marginal_transformation(pair)
            ev_pair = ev_pair + np.asarray(py2.evaluate_ln(J(np.tile(xs[t - 1][None], (py2.R, 1))), element_wise=True))  # element-wise convention
            post_pair = emis_pair.affine_conditional_transformation(pair).condition_on_x(J(xs[t - 1][None]))
            filt_pair = post_pair.get_marginal(jnp.arange(Dz, 2 * Dz))
        ctx.count("states")
        ctx.count("transitions")
        ctx.count("traces_validated_against_impl")
        # dense joint over (z_0..z_t, x_1..x_t) for every prior component
        for r in range(Rp):
            n = (t + 1) * Dz
            F = np.zeros((n, n))  # z = F z + c + noise  => z = (I-F)^-1 (c + noise)
            c = np.zeros(n)
            Nz = np.zeros((n, n))
            c[:Dz] = m0[r]
            Nz[:Dz, :Dz] = S0[r]
            for k in range(1, t + 1):
                F[k * Dz:(k + 1) * Dz, (k - 1) * Dz:k * Dz] = A
                c[k * Dz:(k + 1) * Dz] = bz
                Nz[k * Dz:(k + 1) * Dz, k * Dz:(k + 1) * Dz] = Q
            G = np.linalg.inv(np.eye(n) - F)
            mz = G @ c
            Sz = G @ Nz @ G.T
            H = np.zeros((t * Dx, n))
            for k in range(1, t + 1):
                H[(k - 1) * Dx:k * Dx, k * Dz:(k + 1) * Dz] = C
            dd = np.tile(d, t)
            Rbig = np.kron(np.eye(t), Rn)
            yv = xs[:t].reshape(-1)
            my, Syy = rm.pushforward(mz, Sz, H, dd)
            Syy = Syy + Rbig
            evref = rm.gauss_logpdf(yv, my, Syy)[0]
            Mp, bp, Sp = rm.posterior(mz, Sz, H, dd, Rbig)
            mpost = Mp @ yv + bp
            last = slice(t * Dz, (t + 1) * Dz)
            f2 = dict(facts, r=r)
            ctx.close("kalman.mu", np.asarray(filt.mu)[r], mpost[last], facts=f2, tol=1e-8)
            ctx.close("kalman.Sigma", np.asarray(filt.Sigma)[r], Sp[last, last], facts=f2)
            ctx.close("kalman.evidence", np.array([ev[r]]), np.array([evref]), facts=f2)
            if g2.ok:
                ctx.close("kalman.pair.mu", np.asarray(filt_pair.mu)[r], mpost[last], facts=f2, tol=1e-8)
                ctx.close("kalman.pair.Sigma", np.asarray(filt_pair.Sigma)[r], Sp[last, last], facts=f2)
                ctx.close("kalman.pair.evidence", np.array([ev_pair[r]]), np.array([evref]), facts=f2)
    if vi == 0:
        ctx.sample(dict(shard=shard["id"], A=A, b=bz, Q=Q, C=C, d=d, R=Rn, T=T, x=xs))


def run_shard(shard, ctx):
    (run_reg if shard["part"] == "reg" else run_kalman)(shard, ctx)
