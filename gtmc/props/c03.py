"""C03 -- polynomial integrals equal the exact Gaussian moments (Isserlis oracle)."""
import itertools

import numpy as np
from jax import numpy as jnp

from .. import alphabet as al
from .. import objs
from .. import refmodel as rm

J = jnp.asarray

PROPERTY = "C03"
LEVEL = "exploration"
TECHNIQUE = "bounded-exhaustive enumeration of (key x D x output dims x R x coefficient sharing pattern x omitted defaults x object kind x catalogue) on the real code vs a literal Isserlis/Wick expansion (exact integers in exact mode)"
RULE = (
    "complete product per integration key: D x all arrangements of distinct output dims (K,L,M) x R x [base configuration x 4 object kinds x value indices] "
    "+ [every coefficient sharing pattern with <=2 (quick) / all (thorough) per-component slots] + [every omitted-default pattern on <=1 (quick) / <=2 (thorough) affine forms]; "
    "exact mode: integer Sigma, mu, coefficients, reference in Python integers, comparison bit-exact; float mode: mass x moment, relative 1e-8. "
    "distinct = (shard, dims, R, pattern, kind, value index)"
)
ASSUMPTIONS = [
    "real-valued parameters are covered on the finite catalogue + VERIF_SEED-indexed generic reals (cond<=1e3) only",
    "bounds: D<=3 (thorough 4; 5-6 on the base configuration only), output dims from {1,2,3} (thorough {1..4}), R<=3",
    "the vector-valued A of x(A'x+a)x' and b of xb'xx' are always supplied (their defaults are outside the contract)",
]
BOUNDS = {
    "quick": dict(D=[1, 2, 3], dims=[1, 2, 3], R=[1, 2, 3], share_deviations=2, default_deviations=1),
    "thorough": dict(D=[1, 2, 3, 4], dims=[1, 2, 3, 4], R=[1, 2, 3], share_deviations=8, default_deviations=2, D_base_only=[5, 6]),
}
BUDGET = {"quick": 900, "thorough": 5400}

# key -> (dim symbols of the general affine forms, einsum spec over ALL forms, layout)
# layout lists the forms in order: 'A'..'D' general forms, 'X' the identity form x,
# 's' a scalar-valued form (vector-valued coefficient, always supplied).
KEYS = {
    "1": dict(layout="", sym="", spec="->"),
    "x": dict(layout="X", sym="", spec="i->i"),
    "(Ax+a)": dict(layout="A", sym="K", spec="i->i"),
    "xx'": dict(layout="XX", sym="", spec="i,j->ij"),
    "(Ax+a)'(Bx+b)": dict(layout="AB", sym="KK", spec="i,i->"),
    "(Ax+a)(Bx+b)'": dict(layout="AB", sym="KL", spec="i,j->ij"),
    "(Ax+a)(Bx+b)'(Cx+c)": dict(layout="ABC", sym="KLL", spec="i,j,j->i"),
    "(Ax+a)'(Bx+b)(Cx+c)'": dict(layout="ABC", sym="KKL", spec="i,i,j->j"),
    "x(A'x + a)x'": dict(layout="XsX", sym="", spec="i,,j->ij", scalar="Aa"),
    "xb'xx'": dict(layout="XsX", sym="", spec="i,,j->ij", scalar="b"),
    "(Ax+a)'(Bx+b)(Cx+c)'(Dx+d)": dict(layout="ABCD", sym="KKLL", spec="i,i,j,j->"),
    "(Ax+a)(Bx+b)'(Cx+c)(Dx+d)'": dict(layout="ABCD", sym="KLLM", spec="i,j,j,k->ik"),
}
KINDS = ["GaussianMeasure", "GaussianPDF", "GaussianDiagMeasure", "GaussianDiagPDF"]


def shards(tier, seed):
    out = []
    # measures reached by operation histories (products via fast paths, slices, normalisation ...): start from non-initial states
    for root in ("GaussianMeasure/R1", "GaussianMeasure/R2", "GaussianPDF/R2", "GaussianDiagMeasure/R2"):
        out.append(dict(id="C03/history/%s" % root, history=True, root=root, D=2, key="*", cost=30, facts=dict(root=root, D=2)))
    for ki, key in enumerate(KEYS):
        for D in BOUNDS[tier]["D"] + BOUNDS[tier].get("D_base_only", []):
            nform = len(KEYS[key]["layout"])
            out.append(dict(id="C03/k%02d/D%d" % (ki, D), key=key, D=D, cost=(1 + nform) ** 2 * D, facts=dict(key=key, D=D), base_only=D in BOUNDS[tier].get("D_base_only", [])))
    return out


def dim_arrangements(sym, vals, D):
    syms = sorted(set(sym))
    if not syms:
        return [{}]
    out = []
    for perm in itertools.permutations(vals, len(syms)):
        out.append(dict(zip(syms, perm)))
    return out


def share_patterns(nslots, maxdev):
    pats = []
    for k in range(0, min(maxdev, nslots) + 1):
        for comb in itertools.combinations(range(nslots), k):
            pats.append(tuple(1 if i in comb else 0 for i in range(nslots)))
    return pats


def default_patterns(nforms, maxdev):
    """per general form: 0 nothing omitted, 1 matrix omitted, 2 vector omitted, 3 both."""
    pats = []
    for k in range(1, min(maxdev, nforms) + 1):
        for comb in itertools.combinations(range(nforms), k):
            for how in itertools.product([1, 2, 3], repeat=k):
                p = [0] * nforms
                for i, h in zip(comb, how):
                    p[i] = h
                pats.append(tuple(p))
    return pats


def coef_matrix(rows, cols, R, vi, seed, tag, exact):
    if exact or vi < 100:
        return np.array([al.int_matrix(rows, cols, salt=3 * r + vi + len(tag[-1]) * 2 + ord(tag[-1][0])) for r in range(R)])
    rng = al.rng_for(seed, "c03mat", rows, cols, R, vi, *tag)
    return rng.uniform(-1.5, 1.5, size=(R, rows, cols))


def coef_vector(n, R, vi, seed, tag, exact):
    if exact or vi < 100:
        return np.array([al.int_vector(n, salt=2 * r + vi + ord(tag[-1][0])) for r in range(R)])
    rng = al.rng_for(seed, "c03vec", n, R, vi, *tag)
    return rng.uniform(-2, 2, size=(R, n))


def build_object(kind, D, R, vi, seed, exact):
    """-> (object, per-component (mass, mu, Sig))."""
    diag = "Diag" in kind
    tag = ("c03", kind, D, R)
    if exact:
        cat = al.diag_catalogue(D) if diag else al.spd_catalogue(D)
        Sig = np.array([np.round(al.pick(cat, vi, r) * 2) for r in range(R)])  # integers (catalogue has halves in 1-D)
        Sig = np.where(Sig == 0, 0.0, Sig)
        mu = np.array([al.pick(al.vec_catalogue(D), vi, r) for r in range(R)])
        o = objs.mk_pdf("GaussianDiagPDF" if diag else "GaussianPDF", Sig, mu)
        return o, [(1.0, mu[r], Sig[r]) for r in range(R)]
    if "PDF" in kind:
        Sig = objs.spd_batch(D, R, vi, seed, tag, diag=diag)
        mu = objs.vec_batch(D, R, vi, seed, tag)
        return objs.mk_pdf(kind, Sig, mu), [(1.0, mu[r], Sig[r]) for r in range(R)]
    Lam = objs.spd_batch(D, R, vi, seed, tag, diag=diag)
    nu = objs.vec_batch(D, R, vi, seed, tag)
    lnb = objs.lnb_batch(R, vi, seed, tag)
    o = objs.mk_measure(kind, Lam, nu, lnb)
    par = []
    for r in range(R):
        mu, Sig = rm.nat_to_moment(Lam[r], nu[r])
        par.append((float(np.exp(rm.ln_integral(Lam[r], nu[r], lnb[r]))), mu, Sig))
    return o, par


def run_case(ctx, key, D, dims, R, share, omit, kind, vi, seed, exact):
    spec = KEYS[key]
    layout, sym = spec["layout"], spec["sym"]
    gen = [c for c in layout if c in "ABCD"]
    kwargs = {}
    forms_r = [[] for _ in range(R)]  # per component list of (A, a)
    gi = 0
    eyeD = np.eye(D)
    for c in layout:
        if c == "X":
            for r in range(R):
                forms_r[r].append((eyeD, np.zeros(D)))
        elif c == "s":
            if spec["scalar"] == "Aa":
                pcA, pca = share[0], share[1]
                A = coef_matrix(1, D, R, vi, seed, ("sA",), exact)
                a = coef_vector(1, R, vi, seed, ("sa",), exact)
                if not pcA:
                    A = np.tile(A[:1], (R, 1, 1))
                if not pca:
                    a = np.tile(a[:1], (R, 1))
                kwargs["A_mat"] = J(A if pcA else A[0])
                kwargs["a_vec"] = J(a if pca else a[0])
                for r in range(R):
                    forms_r[r].append((A[r][0], a[r][0]))
            else:
                pcb = share[0]
                b = coef_vector(D, R, vi, seed, ("sb",), exact)
                if not pcb:
                    b = np.tile(b[:1], (R, 1))
                kwargs["b_vec"] = J(b if pcb else b[0])
                for r in range(R):
                    forms_r[r].append((b[r], 0.0))
        else:
            K = dims[sym[gi]]
            om = omit[gi] if omit else 0
            pcM, pcv = share[2 * gi], share[2 * gi + 1]
            A = coef_matrix(K, D, R, vi, seed, (c + "m",), exact)
            a = coef_vector(K, R, vi, seed, (c + "v",), exact)
            if not pcM:
                A = np.tile(A[:1], (R, 1, 1))
            if not pcv:
                a = np.tile(a[:1], (R, 1))
            if om in (1, 3):
                assert K == D
                A = np.tile(eyeD[None], (R, 1, 1))
            else:
                kwargs[c + "_mat"] = J(A if pcM else A[0])
            if om in (2, 3):
                a = np.zeros((R, K))
            else:
                kwargs[c.lower() + "_vec"] = J(a if pcv else a[0])
            for r in range(R):
                forms_r[r].append((A[r], a[r]))
            gi += 1
    o, par = build_object(kind, D, R, vi, seed, exact)
    facts = dict(key=key, R=R, kind=kind, exact=exact, share="".join(map(str, share)), omit="".join(map(str, omit or ())), **{k: int(v) for k, v in dims.items()})
    with ctx.guard("integrate.call", facts) as g:
        got = np.asarray(o.integrate(key, **kwargs))
    if not g.ok:
        return
    refs = []
    for r in range(R):
        mass, mu, Sig = par[r]
        if exact:
            mom = rm.raw_moments(np.array([int(v) for v in mu], dtype=object), np.array([[int(v) for v in row] for row in Sig], dtype=object), 4, exact=True)
            fr = [(np.array(np.round(A), dtype=object).astype(int).astype(object), np.array(np.round(a), dtype=object).astype(int).astype(object)) for A, a in forms_r[r]]
            val = rm.expect_poly(mom, fr, spec["spec"], exact=True)
            refs.append(np.array(val, dtype=float))
        else:
            mom = rm.raw_moments(mu, Sig, 4)
            refs.append(mass * np.asarray(rm.expect_poly(mom, forms_r[r], spec["spec"]), float))
    ref = np.array(refs)
    if exact:
        ctx.count("exact_cases")
        if got.shape != ref.shape:
            ctx.fail("integrate.exact", "shape", observed=list(got.shape), expected=list(ref.shape), facts=facts)
        elif not np.array_equal(got, ref):
            ctx.fail("integrate.exact", "not_bit_exact", value=float(np.max(np.abs(got - ref))), observed=got, expected=ref, facts=facts)
        ctx.count("comparisons")
    else:
        scale = float(np.max(np.abs(ref))) if ref.size else 1.0
        ctx.close("integrate.value", got, ref, scale=scale, facts=facts)
    return dict(key=key, kwargs={k: np.asarray(v) for k, v in kwargs.items()}, kind=kind, expected=ref)


def run_history(shard, ctx):
    """All 12 keys on every measure state reached by histories of depth <= 2 (thorough 3) over the reduced alphabet
    of the shared transition system; reference = mass x Isserlis moment from the NumPy MODEL of the state."""
    from .. import bfs
    from . import _graph

    tier, seed = shard["tier"], shard["seed"]
    D = shard["D"]
    spec = [sp for sp in _graph.root_specs(D, tier) if sp["label"] == shard["root"]][0]

    class IntSystem(_graph.GaussSystem):
        def check_state(self, ctx, obj, model, hist):
            ok = _graph.GaussSystem.check_state(self, ctx, obj, model, hist)
            if not ok or model["t"] != "measure" or model["Lam"].shape[1] != D:
                return ok
            R = len(model["Lam"])
            facts = dict(root=hist[0], hist=">".join(hist[1]), R=R, mask=objs.cache_mask(obj))
            par = []
            for r in range(R):
                mu, Sig = rm.nat_to_moment(model["Lam"][r], model["nu"][r])
                par.append((float(np.exp(rm.ln_integral(model["Lam"][r], model["nu"][r], model["lnb"][r]))), rm.raw_moments(mu, Sig, 4)))
            import copy

            for key, spec_k in KEYS.items():
                layout, sym = spec_k["layout"], spec_k["sym"]
                dims = dict(K=3, L=2, M=1)
                kwargs, forms = {}, []
                gi = 0
                for c in layout:
                    if c == "X":
                        forms.append((np.eye(D), np.zeros(D)))
                    elif c == "s":
                        if spec_k["scalar"] == "Aa":
                            A = coef_matrix(1, D, 1, 0, seed, ("sA",), False)[0]
                            a = coef_vector(1, 1, 0, seed, ("sa",), False)[0]
                            kwargs["A_mat"], kwargs["a_vec"] = J(A), J(a)
                            forms.append((A[0], a[0]))
                        else:
                            b = coef_vector(D, 1, 0, seed, ("sb",), False)[0]
                            kwargs["b_vec"] = J(b)
                            forms.append((b, 0.0))
                    else:
                        K = dims[sym[gi]]
                        A = coef_matrix(K, D, 1, 0, seed, (c + "m",), False)[0] * 0.5
                        a = coef_vector(K, 1, 0, seed, (c + "v",), False)[0] * 0.5
                        kwargs[c + "_mat"], kwargs[c.lower() + "_vec"] = J(A), J(a)
                        forms.append((A, a))
                        gi += 1
                f2 = dict(facts, key=key)
                with ctx.guard("history.integrate.call", f2) as g:
                    # queried on the state object ITSELF: whatever a query leaves behind is carried into the successors
                    got = np.asarray(obj.integrate(key, **kwargs))
                if not g.ok:
                    continue
                ref = np.array([mass * np.asarray(rm.expect_poly(mom, forms, spec_k["spec"]), float) for mass, mom in par])
                ctx.close("history.integrate.value", got, ref, scale=float(np.max(np.abs(ref))) if ref.size else 1.0, facts=f2)
            return ok

    sys_ = IntSystem(D, seed, 0, "reduced", 4, spec, checks=("model",))
    st = bfs.explore(sys_, ctx, 2 if tier == "quick" else 3, validate=False)
    ctx.count("history_states", st["states"])
    ctx.sample(dict(shard=shard["id"], states=st["states"], transitions=st["transitions"], keys=len(KEYS)))


def run_shard(shard, ctx):
    if shard.get("history"):
        return run_history(shard, ctx)
    tier, seed = shard["tier"], shard["seed"]
    key, D = shard["key"], shard["D"]
    spec = KEYS[key]
    B = BOUNDS[tier]
    gen = [c for c in spec["layout"] if c in "ABCD"]
    nslots = 2 * len(gen) if gen else {"Aa": 2, "b": 1}.get(spec.get("scalar"), 0)
    base_only = shard.get("base_only")
    vis = [0, 100] if tier == "quick" else [0, 1, 100, 101, 102, 103, 104, 105]
    for dims in dim_arrangements(spec["sym"], B["dims"] if not base_only else [2, 3], D):
        for R in B["R"] if not base_only else [2]:
            noshare = (0,) * nslots
            # base configuration: all kinds, all value indices, + exact mode
            for kind in KINDS:
                for vi in vis:
                    if ctx.case(dict(dims=dims, R=R, share=noshare, omit=None, kind=kind, vi=vi, exact=False)):
                        s = run_case(ctx, key, D, dims, R, noshare, None, kind, vi, seed, False)
                        if s and vi == 0 and R == 2 and kind == "GaussianMeasure":
                            ctx.sample(dict(shard=shard["id"], dims=dims, R=R, **s))
            for kind in ("GaussianPDF", "GaussianDiagPDF"):
                for vi in (0, 1):
                    if D <= 4 and ctx.case(dict(dims=dims, R=R, share=noshare, omit=None, kind=kind, vi=vi, exact=True)):
                        run_case(ctx, key, D, dims, R, noshare, None, kind, vi, seed, True)
            if base_only or nslots == 0:
                continue
            # coefficient sharing patterns (per-component slots), R>1 only
            if R > 1:
                for share in share_patterns(nslots, B["share_deviations"]):
                    if not any(share):
                        continue
                    vi = 0 if sum(share) % 2 else 100
                    if ctx.case(dict(dims=dims, R=R, share=share, omit=None, kind="GaussianMeasure", vi=vi, exact=False)):
                        run_case(ctx, key, D, dims, R, share, None, "GaussianMeasure", vi, seed, False)
                    if sum(share) <= 1 and D <= 3 and ctx.case(dict(dims=dims, R=R, share=share, omit=None, kind="GaussianPDF", vi=1, exact=True)):
                        run_case(ctx, key, D, dims, R, share, None, "GaussianPDF", 1, seed, True)
            # omitted defaults
            if gen:
                for omit in default_patterns(len(gen), B["default_deviations"]):
                    ok = True
                    for gi, om in enumerate(omit):
                        if om in (1, 3) and dims[spec["sym"][gi]] != D:
                            ok = False
                    # a dim symbol shared by two forms is forced to D consistently (already checked via dims)
                    if not ok:
                        continue
                    for share in ([noshare] + ([tuple(1 for _ in range(nslots))] if R > 1 else [])):
                        if ctx.case(dict(dims=dims, R=R, share=share, omit=omit, kind="GaussianMeasure", vi=100, exact=False)):
                            run_case(ctx, key, D, dims, R, share, omit, "GaussianMeasure", 100, seed, False)
