"""C05 -- marginals and linear images."""
import itertools

import numpy as np
from jax import numpy as jnp

from .. import alphabet as al
from .. import objs
from .. import refmodel as rm

J = jnp.asarray

PROPERTY = "C05"
LEVEL = "exploration"
RULE = (
    "complete product: density kind {GaussianPDF, GaussianDiagPDF} x R x D<=4 x ALL ordered non-repeating index lists x value index (get_marginal); "
    "ALL full-row-rank W with entries in {-1,0,1} (D<=2) / rows from a 7-vector list (D=3) x b in {None, vector} x W shared or per component (get_density_of_linear_sum); "
    "oracles: NumPy normal log-density of the sub-vector / image and the analytic integral of the joint's identified quadratic over the dropped coordinates; "
    "distinct = (shard, R, index list | W index, value index)"
)
ASSUMPTIONS = [
    "real-valued parameters are covered on the finite catalogue + VERIF_SEED-indexed generic reals (cond<=1e3) only",
    "sizes bounded as stated in coverage.bounds (quick: D<=5, R<=5; thorough: D<=6, R<=5); W entries from {-1,0,1}",
]
BOUNDS = {"quick": dict(D=[1, 2, 3, 4], R=[1, 2, 4]), "thorough": dict(D=[1, 2, 3, 4, 5, 6], R=[1, 2, 3, 4, 5])}
BUDGET = {"quick": 600, "thorough": 3600}


def shards(tier, seed):
    out = []
    for kind in ("GaussianPDF", "GaussianDiagPDF"):
        for D in BOUNDS[tier]["D"]:
            out.append(dict(id="C05/marg/%s/D%d" % (kind, D), part="marg", kind=kind, D=D, cost=D * D, facts=dict(kind=kind, D=D)))
        if tier == "quick":
            out.append(dict(id="C05/marg/%s/D5.large" % kind, part="marg", kind=kind, D=5, large=True, cost=30, facts=dict(kind=kind, D=5)))
        # eight coordinates with extremely small / large variances (2^-130, 2^130): products of variances leave the double range
        for sc in (-130, 130):
            out.append(dict(id="C05/marg/%s/D8.huge.s%d" % (kind, sc), part="marg", kind=kind, D=8, large=True, huge=sc, cost=10, facts=dict(kind=kind, D=8)))
    for kind in ("GaussianPDF", "GaussianDiagPDF"):
        for D in (1, 2, 3):
            for Ds in range(1, D + 1):
                out.append(dict(id="C05/linsum/%s/D%d.Ds%d" % (kind, D, Ds), part="linsum", kind=kind, D=D, Ds=Ds, cost=D * 3, facts=dict(kind=kind, D=D, Ds=Ds)))
    return out


def run_shard(shard, ctx):
    (run_marg if shard["part"] == "marg" else run_linsum)(shard, ctx)


def index_lists(D, tier):
    if D >= 8:
        return [[0], [D - 1, 0], list(range(D)), list(range(D))[::-1], list(range(1, D, 2)) + list(range(0, D, 2)), list(range(D - 1))]
    ls = al.all_index_lists(D)
    if D >= 6:
        ls = [l for l in ls if len(l) <= 2] + [l for l in ls if len(l) > 2][::11]
    return ls


def run_marg(shard, ctx):
    tier, seed = shard["tier"], shard["seed"]
    kind, D = shard["kind"], shard["D"]
    diag = "Diag" in kind
    vis = [0, 100, objs.HARD] if tier == "quick" else [0, 1, 2, 100, 101, 102, 103, 104, 105, objs.HARD]
    if shard.get("huge"):
        vis = [100]
    for R in (BOUNDS[tier]["R"] if not shard.get("large") else ([5] if not shard.get("huge") else [2])):
        for vi in vis:
            tag = ("c05", kind, D, R)
            Sig = objs.spd_batch(D, R, vi, seed, tag, diag=diag)
            if shard.get("huge"):
                Sig = Sig * 2.0 ** shard["huge"]
            mu = objs.vec_batch(D, R, vi, seed, tag)
            which = ("fresh", "sliced_neg", "updated", "Sigma+Lambda", "queried", "replaced_mu", "prod_conjugate", "conditioned", "prod_linear", "prod_constant", "hadamard_onerank", "multiply_onerank", "joint_of_cond", "hadamard_linear_bcast", "hadamard_linear_bcast>marginal", "hadamard_linear_bcast>slice", "posterior_identity") if (vi == 0 and D <= 3) else ("fresh",)
            for prep, mkp, mu_e, Sig_e in objs.pdf_variants(kind, Sig, mu, which=which):
                with ctx.guard("prepare." + prep, dict(prep=prep)) as g:
                    p = mkp()
                    # identified quadratic of the joint's evaluated function
                    pts, _ = rm.lattice(D)
                    vals = np.asarray(p.evaluate_ln(J(pts)))
                    ident = [rm.identify_quadratic(vals[r], D) for r in range(R)]
                if not g.ok:
                    continue
                marg_on(ctx, shard, tier, p, ident, kind, D, R, vi, mu_e, Sig_e, prep)


def marg_on(ctx, shard, tier, p, ident, kind, D, R, vi, mu, Sig, prep):
    if True:
        if True:
            for dims in index_lists(D, tier):
                if not ctx.case(dict(R=R, vi=vi, dims=dims, prep=prep)):
                    continue
                N = 2 if R != 2 else 3
                xs = al.points(N, len(dims), salt=len(dims) + vi)
                xm = xs * 0.5 + mu[0][dims][None]  # near the first component's mean (50 sigma from the origin for the hard entry)
                facts = dict(R=R, ndims=len(dims), sorted=dims == sorted(dims), prep=prep)
                if vi == 0 and R == 2 and dims == list(reversed(range(D))):
                    ctx.sample(dict(shard=shard["id"], op="get_marginal", dims=dims, Sigma=Sig, mu=mu, x=xs))
                with ctx.guard("get_marginal.call", facts) as g:
                    m = p.get_marginal(objs.idx(dims, len(dims) + sum(dims)))
                    got = np.asarray(m.evaluate_ln(J(xs)))
                    gotc = np.asarray(m(J(xm)))
                if not g.ok:
                    continue
                ref = np.array([rm.gauss_logpdf(xs, *rm.marginal(mu[r], Sig[r], dims)) for r in range(R)])
                ctx.close("get_marginal.value", got, ref, facts=facts)
                Sm_ref = np.array([Sig[r][np.ix_(dims, dims)] for r in range(R)])
                objs.call_matches(ctx, "get_marginal.call_value", gotc, np.array([rm.gauss_logpdf(xm, *rm.marginal(mu[r], Sig[r], dims)) for r in range(R)]), facts=facts, lscale=objs.ln_scale(xm, Sm_ref))
                if dims == sorted(dims) or len(dims) == D:
                    objs.elementwise_matches(ctx, "get_marginal.elementwise", m, mu[:, dims], Sm_ref, facts=facts, salt=len(dims))
                ctx.close("get_marginal.mu", np.asarray(m.mu), mu[:, dims], facts=facts)
                ctx.close("get_marginal.Sigma", np.asarray(m.Sigma), np.array([Sig[r][np.ix_(dims, dims)] for r in range(R)]), facts=facts)
                # integral of the joint's evaluated function over the dropped coordinates
                drop = [d for d in range(D) if d not in dims]
                integ = np.zeros((R, N))
                for r in range(R):
                    Lam, nu, c, resid = ident[r]
                    for n in range(N):
                        xk = xs[n]
                        ck = c - 0.5 * xk @ Lam[np.ix_(dims, dims)] @ xk + nu[dims] @ xk
                        if drop:
                            integ[r, n] = rm.ln_integral(Lam[np.ix_(drop, drop)], nu[drop] - Lam[np.ix_(drop, dims)] @ xk, ck)
                        else:
                            integ[r, n] = ck
                if not shard.get("huge"):  # (the unit-spaced identification lattice is meaningless at scales of 2^+-65)
                    ctx.close("get_marginal.integral_of_joint", got, integ, tol=1e-7, facts=facts)
                # type is preserved for diagonal densities; result is a coherent density
                Sm, Lm = np.asarray(m.Sigma), np.asarray(m.Lambda)
                ctx.close("get_marginal.SigmaLambda", np.einsum("rij,rjk->rik", Sm, Lm), np.tile(np.eye(len(dims))[None], (R, 1, 1)), symptom="incoherent", facts=facts)
                ctx.close("get_marginal.ln_det_Sigma", np.asarray(m.ln_det_Sigma), np.linalg.slogdet(Sm)[1], symptom="incoherent", facts=facts)


def w_catalogue(D, Ds):
    if D <= 2:
        rows = [np.array(v, float) for v in itertools.product([-1, 0, 1], repeat=D)]
    else:
        rows = [np.array(v, float) for v in ([1, 0, 0], [0, 1, 0], [0, 0, 1], [1, -1, 0], [1, 1, 1], [0, 1, -1], [-1, 0, 1])]
    out = []
    for comb in itertools.product(range(len(rows)), repeat=Ds):
        W = np.array([rows[i] for i in comb])
        if np.linalg.matrix_rank(W) == Ds:
            out.append(W)
    return out


def run_linsum(shard, ctx):
    tier, seed = shard["tier"], shard["seed"]
    D, Ds = shard["D"], shard["Ds"]
    Ws = w_catalogue(D, Ds)
    if tier == "quick" and len(Ws) > 120:
        Ws = Ws[:: len(Ws) // 120 + 1]
    for R in (1, 2, 3) if tier == "thorough" else (1, 2):
        vi = 0 if R == 1 else 100
        tag = ("c05ls", D, R)
        Sig = objs.spd_batch(D, R, vi, seed, tag, diag="Diag" in shard["kind"])
        mu = objs.vec_batch(D, R, vi, seed, tag)
        p = objs.mk_pdf(shard["kind"], Sig, mu)
        N = 3
        ys = al.points(N, Ds, salt=D)
        for wi, W in enumerate(Ws):
            for mode in ("shared", "percomp"):
                if mode == "percomp" and R == 1:
                    continue
                for bmode in ("none", "vec"):
                    if not ctx.case(dict(R=R, wi=wi, mode=mode, b=bmode)):
                        continue
                    if mode == "shared":
                        Wb = np.tile(W[None], (R, 1, 1))
                        Win = W[None]
                    else:
                        Wb = np.array([Ws[(wi + 5 * r) % len(Ws)] for r in range(R)])
                        Win = Wb
                    bb = None if bmode == "none" else np.array([al.int_vector(Ds, salt=r + wi) for r in range(Wb.shape[0] if mode == "percomp" else 1)])
                    facts = dict(R=R, mode=mode, b=bmode)
                    if wi == 1 and R == 2 and mode == "percomp" and bmode == "vec":
                        ctx.sample(dict(shard=shard["id"], op="get_density_of_linear_sum", W=Win, b=bb, Sigma=Sig, mu=mu))
                    with ctx.guard("linear_sum.call", facts) as g:
                        q = p.get_density_of_linear_sum(J(Win), None if bb is None else J(bb))
                        got = np.asarray(q.evaluate_ln(J(ys)))
                    if not g.ok:
                        continue
                    ref = np.zeros((R, N))
                    for r in range(R):
                        br = None if bb is None else bb[r if len(bb) > 1 else 0]
                        m, S = rm.pushforward(mu[r], Sig[r], Wb[r], br)
                        ref[r] = rm.gauss_logpdf(ys, m, S)
                    ctx.close("linear_sum.value", got, ref, facts=facts)
                    if bmode == "vec":
                        pf = [rm.pushforward(mu[r], Sig[r], Wb[r], None if bb is None else bb[r if len(bb) > 1 else 0]) for r in range(R)]
                        objs.elementwise_matches(ctx, "linear_sum.elementwise", q, np.array([a_[0] for a_ in pf]), np.array([a_[1] for a_ in pf]), facts=facts, salt=wi)
                    Sq, Lq = np.asarray(q.Sigma), np.asarray(q.Lambda)
                    ctx.close("linear_sum.SigmaLambda", np.einsum("rij,rjk->rik", Sq, Lq), np.tile(np.eye(Ds)[None], (R, 1, 1)), symptom="incoherent", facts=facts)
                    ctx.close("linear_sum.entropy", np.asarray(q.entropy()), np.array([rm.entropy(rm.pushforward(mu[r], Sig[r], Wb[r])[1]) for r in range(R)]), facts=facts)
