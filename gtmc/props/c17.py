"""C17 -- heteroscedastic conditionals: coherent p(y|x) and valid lower bounds."""
import math

import numpy as np
from jax import numpy as jnp

from gaussian_toolbox import approximate_conditional as ac

from .. import alphabet as al
from .. import objs
from .. import refmodel as rm

J = jnp.asarray

PROPERTY = "C17"
LEVEL = "exploration"
TECHNIQUE = "bounded-exhaustive enumeration (link x constructor-accepted shapes incl. Da=Dy and Da>Dy x weight scales x y x p(x) x calling convention) vs NumPy formulas for p(y|x) and certified piecewise/tensor Gauss-Legendre quadrature of the true expected log-density"
RULE = (
    "complete product: link {exp, cosh-1, step, ReLU} x (Dx,Dy,Da,Dk) in 8 shapes (Da=Dy and Da>Dy) x weight scale eps in {1, .1, .01, .001} (+0 for exp, cosh-1) x y x p(x) x {1 observation/1 prior, N observations paired with N priors}; "
    "(i) condition_on_x: mean, covariance formula, precision = inverse, log-det true; (ii) bound <= true + 1e-7 (exp, cosh-1, ReLU), |bound-true| <= 1e-7 (step), true value by quadrature with breakpoints at the kinks "
    "(Dx=1; Dx=2 in rotated whitened coordinates when Dk=1; smooth links any Dk); (iii) gap(eps/10) <= gap(eps)/30 for eps in {.1,.01}, gap = 0 at eps=0. distinct = (shard, eps, value index, convention)"
)
ASSUMPTIONS = [
    "quadrature value trusted only with its two-resolution + larger-domain certificate (1e-10); uncertified cases are excluded and counted",
    "kinked links (step, ReLU) with Dx=2 and Dk=2 (two non-parallel kink lines) are integrated in the plane of the two link arguments h=(h1,h2) with breakpoints at h_k=0, the expectation over x given h being closed form",
    "real-valued parameters on the finite catalogue + VERIF_SEED-indexed generic reals only; offsets non-zero; weight scale <= 1",
    "known finding F9 (Da>Dy): incoherent precision/log-det, step bound not exact, bounds not tight -- a bound ABOVE the true value is never covered by it",
]
BOUNDS = {"quick": dict(shapes=8, eps=[1.0, 0.1, 0.01, 0.001, 0.0]), "thorough": dict(shapes=8, eps=[1.0, 0.5, 0.1, 0.01, 0.001, 0.0])}
BUDGET = {"quick": 900, "thorough": 5400}

SHAPES = [(1, 1, 1, 1), (1, 2, 2, 1), (1, 2, 2, 2), (2, 2, 2, 1), (2, 2, 2, 2), (1, 1, 2, 1), (1, 2, 3, 2), (2, 2, 3, 2)]
LINKS = {"Exp": ac.HeteroscedasticExpConditional, "CoshM1": ac.HeteroscedasticCoshM1Conditional, "Heaviside": ac.HeteroscedasticHeavisideConditional, "ReLU": ac.HeteroscedasticReLUConditional}


def link_fn(link, h):
    return {"Exp": np.exp, "CoshM1": lambda t: np.cosh(t) - 1.0, "Heaviside": lambda t: (t >= 0).astype(float), "ReLU": lambda t: np.maximum(t, 0.0)}[link](h)


def shards(tier, seed):
    out = []
    for link in LINKS:
        for (Dx, Dy, Da, Dk) in SHAPES:
            for vi in ([0, 100] if tier == "quick" else [0, 1, 100, 101, 102, 103, 104, 105]):
                out.append(dict(id="C17/%s/Dx%d.Dy%d.Da%d.Dk%d/v%d" % (link, Dx, Dy, Da, Dk, vi), link=link, Dx=Dx, Dy=Dy, Da=Da, Dk=Dk, vi=vi, cost=(6 if link == "ReLU" else 1) * Dx, facts=dict(link=link, Dx=Dx, Dy=Dy, Da=Da, Dk=Dk)))
    return out


def params(shard, seed):
    link, Dx, Dy, Da, Dk, vi = (shard[k] for k in ("link", "Dx", "Dy", "Da", "Dk", "vi"))
    if vi < 100:
        M = al.int_matrix(Dy, Dx, salt=1 + vi) * 0.5
        b = al.int_vector(Dy, salt=1 + vi) * 0.5
        A = al.int_matrix(Dy, Da, salt=2 + vi) * 0.5 + np.eye(Dy, Da)
        W = np.array([np.concatenate([[0.3 * (-1) ** k * (1 + k)], al.int_vector(Dx, salt=k + vi) * 0.35 * (-1) ** k]) for k in range(Dk)])
    else:
        rng = al.rng_for(seed, "c17", link, Dx, Dy, Da, Dk, vi)
        M = rng.uniform(-1, 1, size=(Dy, Dx))
        b = rng.uniform(-1, 1, size=Dy)
        A = rng.uniform(-0.7, 0.7, size=(Dy, Da)) + np.eye(Dy, Da)
        W = rng.uniform(-1, 1, size=(Dk, Dx + 1))
        W[:, 0] = np.where(np.abs(W[:, 0]) < 0.2, 0.4, W[:, 0])
        W[:, 1] = np.where(np.abs(W[:, 1]) < 0.3, 0.6, W[:, 1])
    return M, b, A, W


def nodes(mu, Sig, W, link, n, zmax):
    """Quadrature nodes/weights for E_{N(mu,Sig)}; breakpoints at the kinks.  None if two non-parallel kink lines."""
    Dx = len(mu)
    kinked = link in ("Heaviside", "ReLU")
    L = np.linalg.cholesky(Sig)
    if Dx == 1:
        s = L[0, 0]
        br = list(np.arange(-zmax, zmax + 1e-9, 0.25))
        if kinked:
            for k in range(len(W)):
                if abs(W[k, 1]) > 1e-300:
                    z0 = (-W[k, 0] / W[k, 1] - mu[0]) / s
                    if -zmax < z0 < zmax:
                        br.append(z0)
        z, w = rm.gauss_legendre_piecewise(sorted(set(br)), n)
        w = w * np.exp(-0.5 * z * z) / math.sqrt(2 * math.pi)
        return (mu[0] + s * z)[:, None], w
    if not kinked:
        return rm.normal_expect_nodes(mu, Sig, n, h=0.3, zmax=zmax)
    if len(W) != 1:
        return None
    v = L.T @ W[0, 1:]
    s = float(np.linalg.norm(v))
    if s < 1e-300:
        return rm.normal_expect_nodes(mu, Sig, n, h=0.3, zmax=zmax)
    q1 = v / s
    q2 = np.array([-q1[1], q1[0]])
    Q = np.stack([q1, q2], axis=1)
    m = W[0, 1:] @ mu + W[0, 0]
    br1 = list(np.arange(-zmax, zmax + 1e-9, 0.3))
    z0 = -m / s
    if -zmax < z0 < zmax:
        br1.append(z0)
    z1, w1 = rm.gauss_legendre_piecewise(sorted(set(br1)), n)
    z2, w2 = rm.gauss_legendre_piecewise(list(np.arange(-zmax, zmax + 1e-9, 0.3)), n)
    w1 = w1 * np.exp(-0.5 * z1 * z1) / math.sqrt(2 * math.pi)
    w2 = w2 * np.exp(-0.5 * z2 * z2) / math.sqrt(2 * math.pi)
    Z = np.stack([np.repeat(z1, len(z2)), np.tile(z2, len(z1))], axis=1)
    Wt = np.repeat(w1, len(z2)) * np.tile(w2, len(z1))
    return mu + Z @ (L @ Q).T, Wt


def true_value_hspace(link, M, b, A, W, mu, Sig, y):
    """Kinked links with two noise units and Dx>=2: integrate over h=(h1,h2) ~ N(m,S_h) on a tensor grid with
    breakpoints at h_k=0; x | h is Gaussian (A_h h + c, C) and ln N(y; Mx+b, Sigma(h)) is quadratic in x, so the inner
    expectation is closed form."""
    Dx, Dk, Dy = len(mu), len(W), len(y)
    Wm, w0 = W[:, 1:], W[:, 0]
    m = Wm @ mu + w0
    Sh = Wm @ Sig @ Wm.T
    if np.linalg.eigvalsh(Sh)[0] < 1e-10:
        return None, "not_applicable"
    G = Sig @ Wm.T @ np.linalg.inv(Sh)  # x | h = mu + G (h - m), cov C
    C = Sig - G @ Sh @ G.T
    Ak = A[:, :Dk]
    Shi = np.linalg.inv(Sh)
    ldh = np.linalg.slogdet(2 * np.pi * Sh)[1]
    sd = np.sqrt(np.diag(Sh))
    vals = []
    for n, zmax in ((8, 8.5), (12, 8.5), (8, 10.0)):
        axes = []
        for k in range(2):
            br = list(m[k] + sd[k] * np.arange(-zmax, zmax + 1e-9, 0.3))
            if br[0] < 0 < br[-1]:
                br.append(0.0)
            axes.append(rm.gauss_legendre_piecewise(sorted(set(br)), n))
        (h1, w1), (h2, w2) = axes
        H = np.stack([np.repeat(h1, len(h2)), np.tile(h2, len(h1))], axis=1)
        Wt = np.repeat(w1, len(h2)) * np.tile(w2, len(h1))
        dh = H - m
        dens = np.exp(-0.5 * np.einsum("pi,ij,pj->p", dh, Shi, dh) - 0.5 * ldh)
        D = link_fn(link, H)
        S = A @ A.T + np.einsum("ik,pk,jk->pij", Ak, D, Ak)
        Si = np.linalg.inv(S)
        xm = mu + dh @ G.T
        d = y - (xm @ M.T + b)
        quad = np.einsum("pi,pij,pj->p", d, Si, d) + np.einsum("pij,ji->p", Si, M @ C @ M.T)
        lp = -0.5 * quad - 0.5 * Dy * rm.LN2PI - 0.5 * np.linalg.slogdet(S)[1]
        vals.append(float(np.sum(Wt * dens * lp)))
    cert = abs(vals[0] - vals[1]) <= 1e-10 * max(1.0, abs(vals[1])) and abs(vals[0] - vals[2]) <= 1e-10 * max(1.0, abs(vals[1]))
    return vals[1], ("ok" if cert else "uncertified")


def true_value(link, M, b, A, W, mu, Sig, y):
    """E_{N(mu,Sig)}[ln N(y; Mx+b, AA' + A_k diag(link(Wx+w0)) A_k')] with certificate."""
    Dx, Dk, Dy = len(mu), len(W), len(y)
    if link in ("Heaviside", "ReLU") and Dx >= 2 and Dk == 2:
        return true_value_hspace(link, M, b, A, W, mu, Sig, y)
    smax = 0.0
    if link in ("Exp", "CoshM1"):
        L = np.linalg.cholesky(Sig)
        smax = max(float(np.linalg.norm(L.T @ W[k, 1:])) for k in range(Dk))
    base = (8.5 if Dx == 1 else 7.5) + smax
    vals = []
    for n, zmax in (((10, base), (14, base), (10, base + 1.5)) if Dx == 1 else ((7, base), (10, base), (7, base + 1.2))):
        nw = nodes(mu, Sig, W, link, n, zmax)
        if nw is None:
            return None, "not_applicable"
        X, w = nw
        h = X @ W[:, 1:].T + W[:, 0]
        D = link_fn(link, h)
        Ak = A[:, :Dk]
        S = A @ A.T + np.einsum("ik,pk,jk->pij", Ak, D, Ak)
        d = y - (X @ M.T + b)
        sol = np.linalg.solve(S, d[:, :, None])[:, :, 0]
        lp = -0.5 * np.einsum("pi,pi->p", d, sol) - 0.5 * Dy * rm.LN2PI - 0.5 * np.linalg.slogdet(S)[1]
        vals.append(float(w @ lp))
    cert = abs(vals[0] - vals[1]) <= 1e-10 * max(1.0, abs(vals[1])) and abs(vals[0] - vals[2]) <= 1e-10 * max(1.0, abs(vals[1]))
    return vals[1], ("ok" if cert else "uncertified")


def run_shard(shard, ctx):
    tier, seed = shard["tier"], shard["seed"]
    link, Dx, Dy, Da, Dk, vi = (shard[k] for k in ("link", "Dx", "Dy", "Da", "Dk", "vi"))
    M, b, A, W0 = params(shard, seed)
    N = 2
    diag_prior = vi == 100  # the seed-generic shards use a diagonal-class prior
    Sx = objs.spd_batch(Dx, N, vi + 1, seed, ("c17p", Dx), diag=diag_prior)
    mx = objs.vec_batch(Dx, N, vi + 1, seed, ("c17p", Dx)) * 0.5
    ys = al.points(N, Dy, salt=vi)
    gaps = {}
    for eps in BOUNDS[tier]["eps"]:
        if eps == 0.0 and link in ("Heaviside", "ReLU"):
            continue  # the statement claims nothing at exactly zero weights for step / ReLU
        W = W0.copy()
        W[:, 1:] *= eps
        cond = None
        for conv in ("single", "paired", "single_replaced"):
            if conv == "single_replaced" and eps not in (1.0, 0.1):
                continue
            if not ctx.case(dict(eps=eps, conv=conv)):
                continue
            facts = dict(eps=eps, conv=conv)
            with ctx.guard("hetero.construct", facts) as g:
                if conv == "single_replaced":
                    # reached from elsewhere: another instance whose A and W are then replaced (dataclass replace)
                    other = LINKS[link](M=J(M[None]), b=J(b[None]), A=J((A * 1.7 + 0.3)[None]), W=J(W * 0.5))
                    cond = other.replace(A=J(A[None]), W=J(W))
                else:
                    cond = LINKS[link](M=J(M[None]), b=J(b[None]), A=J(A[None]), W=J(W))
            if not g.ok:
                continue
            if conv in ("single", "single_replaced"):
                # ---- (i) condition_on_x -----------------------------------------------------
                X = al.points(3, Dx, salt=vi + 1)
                if Dy == 1 and Da == 1 and Dk == 1 and Dx == 1 and link in ("Exp", "CoshM1", "ReLU") and abs(W[0, 1]) > 1e-6:
                    # evaluation points far from the origin, where the pre-activation is +-25 (the covariance is a scalar:
                    # its condition number stays 1 however large the noise gets)
                    X = np.concatenate([X, np.array([[(25.0 - W[0, 0]) / W[0, 1]], [(-25.0 - W[0, 0]) / W[0, 1]]])], axis=0)
                with ctx.guard("hetero.condition_on_x.call", facts) as g:
                    px = cond.condition_on_x(J(X))
                    got = dict(mu=np.asarray(px.mu), Sigma=np.asarray(px.Sigma), Lambda=np.asarray(px.Lambda), ld=np.asarray(px.ln_det_Sigma))
                if g.ok:
                    h = X @ W[:, 1:].T + W[:, 0]
                    Ak = A[:, :Dk]
                    S = A @ A.T + np.einsum("ik,pk,jk->pij", Ak, link_fn(link, h), Ak)
                    ctx.close("hetero.condition_on_x.mu", got["mu"], X @ M.T + b, facts=facts)
                    ctx.close("hetero.condition_on_x.Sigma", got["Sigma"], S, facts=facts)
                    ctx.close("hetero.condition_on_x.Lambda", got["Lambda"], np.linalg.inv(S), facts=facts, symptom="incoherent")
                    ctx.close("hetero.condition_on_x.ln_det_Sigma", got["ld"], np.linalg.slogdet(S)[1], facts=facts, symptom="incoherent")
                    if eps == 1.0:
                        ctx.sample(dict(shard=shard["id"], M=M, b=b, A=A, W=W, x=X, expected_Sigma=S))
                rows = [0]
            else:
                rows = list(range(N))
            # ---- (ii) the bound -----------------------------------------------------------------
            p_x = objs.mk_pdf("GaussianDiagPDF" if diag_prior else "GaussianPDF", Sx[rows], mx[rows])
            y = ys[rows]
            with ctx.guard("hetero.bound.call", facts) as g:
                lb = np.asarray(cond.integrate_log_conditional_y(p_x, y=J(y)))
            if not g.ok:
                continue
            if lb.shape != (len(rows),):
                ctx.fail("hetero.bound.shape", "shape", observed=list(lb.shape), expected=[len(rows)], facts=facts)
                continue
            for i, r in enumerate(rows):
                tv, status = true_value(link, M, b, A, W, mx[r], Sx[r], ys[r])
                if status != "ok":
                    ctx.count("bound_not_checked_" + status)
                    continue
                ctx.count("bounds_checked")
                gap = tv - lb[i]
                f2 = dict(facts, row=r, gap=float(gap))
                if not np.isfinite(lb[i]):
                    ctx.fail("hetero.bound.value", "nonfinite", observed=lb, facts=f2)
                    continue
                if link == "Heaviside":
                    if gap < -1e-7:
                        ctx.fail("hetero.bound.value", "bound_exceeds_true", value=float(-gap), observed=float(lb[i]), expected=tv, facts=f2)
                    elif abs(gap) > 1e-7:
                        ctx.fail("hetero.bound.value", "not_exact", value=float(gap), observed=float(lb[i]), expected=tv, facts=f2)
                else:
                    if gap < -1e-7:
                        ctx.fail("hetero.bound.value", "bound_exceeds_true", value=float(-gap), observed=float(lb[i]), expected=tv, facts=f2)
                    if eps == 0.0 and abs(gap) > 1e-9:
                        ctx.fail("hetero.bound.tight_at_zero", "not_tight", value=float(gap), observed=float(lb[i]), expected=tv, facts=f2)
                ctx.count("comparisons")
                if conv == "single":
                    gaps[eps] = gap
    # ---- (iii) quadratic tightness -----------------------------------------------------------
    if link != "Heaviside":
        for eps in (0.1, 0.01):
            if eps in gaps and round(eps / 10, 6) in {round(e, 6) for e in gaps}:
                g1 = gaps[eps]
                g2 = gaps[[e for e in gaps if abs(e - eps / 10) < 1e-12][0]]
                ctx.case_desc = dict(tightness=eps)
                ctx.count("comparisons")
                if not (g2 <= g1 / 30.0 + 1e-9):
                    ctx.fail("hetero.bound.decay", "not_tight", value=float(g1 / g2) if g2 else None, observed=[float(g1), float(g2)], facts=dict(eps=eps), msg="gap(eps/10) > gap(eps)/30")
