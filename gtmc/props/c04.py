"""C04 -- cached covariance, log-determinants, mean and log-partition always match,
over operation histories (explicit-state BFS over the real methods)."""
import time

from .. import bfs
from . import _graph

PROPERTY = "C04"
LEVEL = "model_checking"
TECHNIQUE = "explicit-state breadth-first search over the real library methods (states = objects reached by histories, canonical keys, replay of every history on fresh objects), NumPy model stepped alongside every transition, cache invariants in every state"
RULE = (
    "BFS per root object (4 measure/density kinds x R in {1,2}; 5 linear conditional kinds x (Dx,Dy) layouts x R; 4 factor kinds; RBF/SE and four heteroscedastic conditionals with Da=Dy and Da>Dy) "
    "over the transition alphabet {multiply, hadamard (6 factor kinds x R2 x update_full), product, slice (incl. repeated/negative), normalize, get_density, 5 cache-warming queries, "
    "get_marginal, condition_on, update, linear sum, condition_on_x, joint/marginal/conditional transformation, set_y, update_Sigma, factor-into-measure}; "
    "a state is non-trivial/distinct by its canonical key (class, model parameters rounded to 1e-7, cache mask)"
)
ASSUMPTIONS = [
    "values: one catalogue value index per shard (vi) + the VERIF_SEED-indexed generic one; the alphabet of second operands is fixed per shard",
    "batch size capped (R<=4 quick, R<=6 thorough): transitions that would exceed it are disabled",
    "set_y is enabled only for Dx=Dy roots: with Dx!=Dy known finding F3 (C10) would propagate into every successor state",
    "approximate-conditional transitions are opaque for the model (it adopts the exposed mu, Sigma); their cache invariants are still checked",
    "depth: see coverage.bounds / counters max_depth_completed; a deadline cap is reported as exhaustive=false",
    "states whose model precision / noise covariance has condition number > 1e4 are outside the properties' stated domain: they are counted (out_of_domain_states) and neither judged nor expanded",
]
BOUNDS = {
    "quick": dict(D=[2], rcap=4, full_alphabet_depth=2, reduced_alphabet_depth=3, vi=[0, 100], D_shallow=[1, 3], shallow_depth=1),
    "thorough": dict(D=[2], rcap=6, full_alphabet_depth=3, reduced_alphabet_depth=5, vi=[0, 100], D_shallow=[1, 3], shallow_depth=2),
}
BUDGET = {"quick": 900, "thorough": 5400}
CHECKS = ("model", "caches")


def shards(tier, seed, prop="C04"):
    B = BOUNDS[tier]
    out = []
    for D in B["D"]:
        for spec in _graph.root_specs(D, tier):
            for vi in B["vi"]:
                if spec["t"] == "approx" and vi != B["vi"][0]:
                    continue
                out.append(dict(id="%s/D%d/%s/full/v%d" % (prop, D, spec["label"], vi), D=D, spec=spec, level="full", depth=B["full_alphabet_depth"], vi=vi, cost=5, facts=dict(D=D, **{k: v for k, v in spec.items() if k != "label"})))
            if spec["t"] == "measure":
                out.append(dict(id="%s/D%d/%s/reduced/v%d" % (prop, D, spec["label"], B["vi"][0]), D=D, spec=spec, level="reduced", depth=B["reduced_alphabet_depth"], vi=B["vi"][0], cost=20, facts=dict(D=D, **{k: v for k, v in spec.items() if k != "label"})))
    for D in B.get("D_shallow", []):
        for spec in _graph.root_specs(D, tier):
            out.append(dict(id="%s/D%d/%s/full/v%d" % (prop, D, spec["label"], B["vi"][0]), D=D, spec=spec, level="full", depth=B["shallow_depth"], vi=B["vi"][0], cost=2, facts=dict(D=D, **{k: v for k, v in spec.items() if k != "label"})))
    return out


def run_shard(shard, ctx, checks=CHECKS, budget=None):
    tier = shard["tier"]
    B = BOUNDS[tier]
    sys_ = _graph.GaussSystem(shard["D"], shard["seed"], shard["vi"], shard["level"], B["rcap"], shard["spec"], checks=checks)
    deadline = min(time.time() + (budget or (BUDGET[tier] * 0.6)), shard.get("deadline", 1e18))
    st = bfs.explore(sys_, ctx, shard["depth"], deadline=deadline)
    ctx.count("states", st["states"])
    ctx.count("transitions", st["transitions"])
    ctx.count("traces_validated_against_impl", st["replays"])
    ctx.count("merges", st["merges"])
    ctx.count("failed_transitions", st["failed_transitions"])
    ctx.count("capped", st["capped"])
    ctx.cmax("max_depth_completed_" + shard["level"], st["depth_completed"])
    ctx.sample(dict(shard=shard["id"], depth_completed=st["depth_completed"], states=st["states"], transitions=st["transitions"], merges=st["merges"], example_history=ctx.case_desc))
