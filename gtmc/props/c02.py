"""C02 -- reported mass equals the true integral; densities integrate to one.

Part A: the C04 state graph re-explored with the mass oracle switched on: in EVERY
reached measure state the five mass queries must equal the closed-form integral of
the quadratic identified from the object's own evaluate_ln; every reached density
must integrate to one; normalize / get_density are model-checked transitions.
Part B: constructor argument combinations."""
import numpy as np
from jax import numpy as jnp

from .. import alphabet as al
from .. import objs
from .. import refmodel as rm
from . import _graph, c04

J = jnp.asarray

PROPERTY = "C02"
LEVEL = "model_checking"
TECHNIQUE = "explicit-state BFS over the real methods (shared C04 transition system) with a black-box quadratic identification of evaluate_ln as mass oracle in every state; plus exhaustive enumeration of constructor argument combinations"
RULE = c04.RULE + "; in every state: integral(), log_integral(), integral_light(), log_integral_light(), integrate('1') vs the integral of the identified quadratic; PDFs: identified integral = 1. Constructors: {Sigma; Sigma+Lambda; Sigma+Lambda+ln_det_Sigma} x {GaussianPDF, GaussianDiagPDF} x R x D x catalogue"
ASSUMPTIONS = c04.ASSUMPTIONS + ["quadratic identification: evaluate_ln probed on the lattice {0, +-e_i, e_i+e_j} + 3 verification points (quadraticity residual <= 1e-7 certified per state)"]
BOUNDS = {
    "quick": dict(D=[2], rcap=4, full_alphabet_depth=2, reduced_alphabet_depth=3, vi=[0, 100], D_shallow=[1, 3], shallow_depth=1, ctor=dict(R=[1, 2, 3], D=[1, 2, 3])),
    "thorough": dict(D=[2], rcap=6, full_alphabet_depth=3, reduced_alphabet_depth=5, vi=[0, 100], D_shallow=[1, 3], shallow_depth=2, ctor=dict(R=[1, 2, 3, 4], D=[1, 2, 3, 4])),
}
BUDGET = {"quick": 900, "thorough": 5400}


def shards(tier, seed):
    saved = c04.BOUNDS
    c04.BOUNDS = BOUNDS
    try:
        out = c04.shards(tier, seed, prop="C02")
    finally:
        c04.BOUNDS = saved
    for s in out:
        s["part"] = "graph"
    for kind in ("GaussianPDF", "GaussianDiagPDF"):
        for D in BOUNDS[tier]["ctor"]["D"]:
            out.append(dict(id="C02/ctor/%s/D%d" % (kind, D), part="ctor", kind=kind, D=D, cost=1, facts=dict(kind=kind, D=D)))
    for kind in ("GaussianMeasure", "GaussianDiagMeasure"):
        for D in BOUNDS[tier]["ctor"]["D"]:
            out.append(dict(id="C02/mctor/%s/D%d" % (kind, D), part="mctor", kind=kind, D=D, cost=1, facts=dict(kind=kind, D=D)))
    return out


def run_shard(shard, ctx):
    if shard["part"] == "graph":
        saved = c04.BOUNDS
        c04.BOUNDS = BOUNDS
        try:
            c04.run_shard(shard, ctx, checks=("model", "mass"))
        finally:
            c04.BOUNDS = saved
        return
    tier, seed = shard["tier"], shard["seed"]
    kind, D = shard["kind"], shard["D"]
    diag = "Diag" in kind
    sys_ = _graph.GaussSystem(D, seed, 0, "full", 4, dict(label="ctor", t="measure"), checks=("mass",))
    if shard["part"] == "mctor":
        # measures built from every combination of the optional constructor arguments, then used: mass queries, a
        # covariance-requesting rank-one product (fast path on the GIVEN covariance), normalisation
        for R in BOUNDS[tier]["ctor"]["R"]:
            for vi in ([0, 100, objs.HARD] if tier == "quick" else [0, 1, 2, 100, 101, 102, objs.HARD]):
                for mode in objs.MEASURE_MODES:
                    if not ctx.case(dict(R=R, vi=vi, mode=mode)):
                        continue
                    tag = ("c02m", kind, D, R)
                    Lam = objs.spd_batch(D, R, vi, seed, tag, diag=diag)
                    nu = objs.vec_batch(D, R, vi, seed, tag)
                    lnb = objs.lnb_batch(R, vi, seed, tag)
                    facts = dict(mode=mode, R=R)
                    model = _graph.m_measure(kind, Lam, nu, lnb)
                    with ctx.guard("mctor.call", facts) as g:
                        u = objs.mk_measure(kind, Lam, nu, lnb, mode=mode)
                    if not g.ok:
                        continue
                    ctx.count("states")
                    ctx.count("transitions", 3)
                    sys_._check_mass(ctx, u, model, dict(facts, root="mctor", last_op="ctor"))
                    with ctx.guard("mctor.product", facts) as g:
                        # (a catalogue rank-one factor: with the HARD vector the product would leave the stated domain, cond ~1e7)
                        f, (Lf, nf, bf) = objs.mk_factor("OneRankFactor", D, 1, 0 if vi == objs.HARD else vi, seed, tag=("c02mf",))
                        w = objs.mk_measure(kind, Lam, nu, lnb, mode=mode).multiply(f, update_full=True)
                    if g.ok and max(np.linalg.cond(A_) for A_ in Lam + Lf) <= 1e4:
                        sys_._check_mass(ctx, w, _graph.m_measure("GaussianMeasure", Lam + Lf, nu + nf, lnb + bf), dict(facts, root="mctor", last_op="multiply"))
                    elif g.ok:
                        ctx.count("out_of_domain_states")
                    with ctx.guard("mctor.get_density", facts) as g:
                        d = objs.mk_measure(kind, Lam, nu, lnb, mode=mode).get_density()
                    if g.ok:
                        ms = [rm.nat_to_moment(Lam[r], nu[r]) for r in range(R)]
                        sys_._check_mass(ctx, d, _graph.m_pdf_from_moments("GaussianPDF", np.array([m_[0] for m_ in ms]), np.array([m_[1] for m_ in ms])), dict(facts, root="mctor", last_op="get_density"))
        return
    for R in BOUNDS[tier]["ctor"]["R"]:
        for vi in ([0, 1, 100, objs.HARD] if tier == "quick" else [0, 1, 2, 3, 100, 101, 102, 103, 104, 105, objs.HARD]):
            for mode in ("Sigma", "Sigma+Lambda", "Sigma+Lambda+lndet"):
                if not ctx.case(dict(R=R, vi=vi, mode=mode)):
                    continue
                Sig = objs.spd_batch(D, R, vi, seed, ("c02", kind, D, R), diag=diag)
                mu = objs.vec_batch(D, R, vi, seed, ("c02", kind, D, R))
                facts = dict(mode=mode, R=R)
                with ctx.guard("ctor.call", facts) as g:
                    p = objs.mk_pdf(kind, Sig, mu, mode=mode)
                if not g.ok:
                    continue
                ctx.count("states")
                ctx.count("transitions")
                model = _graph.m_pdf_from_moments(kind, mu, Sig)
                sys_._check_mass(ctx, p, model, dict(facts, root="ctor", last_op="ctor"))
                x = al.points(3, D, salt=vi)
                ref = np.array([rm.gauss_logpdf(x, mu[r], Sig[r]) for r in range(R)])
                ctx.close("ctor.value", np.asarray(p.evaluate_ln(J(x))), ref, facts=facts)
                if vi == 0 and R == 2 and mode == "Sigma+Lambda":
                    ctx.sample(dict(shard=shard["id"], mode=mode, Sigma=Sig, mu=mu))
