"""C13 -- entropy, KL divergence, conditional entropy and mutual information."""
import numpy as np
from jax import numpy as jnp

from .. import alphabet as al
from .. import objs
from .. import refmodel as rm
from . import _affine

J = jnp.asarray

PROPERTY = "C13"
LEVEL = "exploration"
RULE = (
    "complete product: (a) density kind {GaussianPDF, GaussianDiagPDF} x D x R x KL layout {(R,R),(1,R),(R,1)} x value index; "
    "(b) conditional kind x batch layout (R_cond,R_x) x (Dx,Dy) x value index incl. M=0; oracles: eigenvalue closed forms, "
    "Gauss-Hermite expectation of the library's own evaluate_ln, sign/zero conditions, role-swap invariance; distinct = (shard, value index, layout)"
)
ASSUMPTIONS = [
    "real-valued parameters are covered on the finite catalogue + VERIF_SEED-indexed generic reals (cond<=1e3) only",
    "sizes bounded as stated in coverage.bounds (quick: D<=3 plus a D=5,R=5 shard; thorough: D<=5, R<=5)",
]
BOUNDS = {"quick": dict(D=[1, 2, 3], R=[1, 2, 3, 4]), "thorough": dict(D=[1, 2, 3, 4, 5], R=[1, 2, 3, 4, 5])}
BUDGET = {"quick": 600, "thorough": 3600}


def shards(tier, seed):
    out = []
    for kind in ("GaussianPDF", "GaussianDiagPDF"):
        for D in BOUNDS[tier]["D"]:
            out.append(dict(id="C13/pdf/%s/D%d" % (kind, D), part="pdf", kind=kind, D=D, cost=D, facts=dict(kind=kind, D=D)))
        if tier == "quick":
            out.append(dict(id="C13/pdf/%s/D5.large" % kind, part="pdf", kind=kind, D=5, large=True, cost=8, facts=dict(kind=kind, D=5)))
    for s in _affine.make_shards(tier, seed, "C13"):
        s["part"] = "cond"
        out.append(s)
    return out


def run_shard(shard, ctx):
    if shard["part"] == "pdf":
        run_pdf(shard, ctx)
    else:
        run_cond(shard, ctx)


def run_pdf(shard, ctx):
    tier, seed = shard["tier"], shard["seed"]
    kind, D = shard["kind"], shard["D"]
    diag = "Diag" in kind
    vis = [0, 1, 2, 100, objs.HARD] if tier == "quick" else [0, 1, 2, 3, 4, 5, 100, 101, 102, 103, 104, 105, objs.HARD]
    for R in (BOUNDS[tier]["R"] if not shard.get("large") else [5]):
        for vi in vis:
            tag = ("c13", kind, D, R)
            Sp = objs.spd_batch(D, R, vi, seed, tag + ("p",), diag=diag)
            mp_ = objs.vec_batch(D, R, vi, seed, tag + ("p",))
            for prep, mkp, mu_e, Sig_e in objs.pdf_variants(kind, Sp, mp_, which=("fresh", "sliced_neg", "updated", "Sigma+Lambda+lndet", "replaced_mu", "prod_conjugate", "conditioned", "prod_linear", "prod_constant", "hadamard_onerank", "multiply_onerank", "joint_of_cond", "hadamard_linear_bcast", "hadamard_linear_bcast>marginal", "hadamard_linear_bcast>slice", "posterior_identity") if vi == 0 else ("fresh",)):
              if ctx.case(dict(what="entropy", R=R, vi=vi, prep=prep)):
                with ctx.guard("entropy.call", dict(prep=prep)):
                    p = mkp()
                    H = np.asarray(p.entropy())
                    ctx.close("entropy.value", H, np.array([rm.entropy(Sig_e[r]) for r in range(R)]), facts=dict(prep=prep))
                    if D <= 2:
                        Hq = np.zeros(R)
                        lsc = 1.0
                        for r in range(R):
                            xs, ws = rm.gauss_hermite(mu_e[r], Sig_e[r], 6)
                            lv = np.asarray(p.evaluate_ln(J(xs)))[r]
                            Hq[r] = -np.sum(ws * lv)
                            Lr = np.linalg.inv(Sig_e[r])
                            lsc = max(lsc, float(np.max(0.5 * np.einsum("ni,ij,nj->n", xs, Lr, xs))))
                        # ln p(x) is a difference of terms of size x'Lambda x/2: its natural scale for a mean far from the origin
                        ctx.close("entropy.minus_E_ln_p", H, Hq, scale=lsc, facts=dict(prep=prep))
                    # KL against an independently built density with the same components is zero; against a fixed q it is the closed form
                    same = objs.mk_pdf("GaussianPDF", Sig_e, mu_e)
                    ctx.close("kl.history_self_zero", np.asarray(p.kl_divergence(same)), np.zeros(R), tol=1e-9, facts=dict(prep=prep))
                    ctx.close("kl.history_self_zero", np.asarray(same.kl_divergence(p)), np.zeros(R), tol=1e-9, facts=dict(prep=prep))
                    q1 = objs.mk_pdf("GaussianPDF", objs.spd_batch(D, 1, vi + 3, seed, tag + ("q1",)), objs.vec_batch(D, 1, vi + 3, seed, tag + ("q1",)))
                    ctx.close("kl.history_value", np.asarray(p.kl_divergence(q1)), np.array([rm.kl(mu_e[r], Sig_e[r], np.asarray(q1.mu)[0], np.asarray(q1.Sigma)[0]) for r in range(R)]), facts=dict(prep=prep))
                    ctx.close("kl.history_value_second", np.asarray(q1.kl_divergence(p)), np.array([rm.kl(np.asarray(q1.mu)[0], np.asarray(q1.Sigma)[0], mu_e[r], Sig_e[r]) for r in range(R)]), facts=dict(prep=prep))
                if vi == 0 and R == 2:
                    ctx.sample(dict(shard=shard["id"], what="entropy", Sigma=Sp, mu=mp_))
            for lay in ("RR", "1R", "R1"):
                if R == 1 and lay != "RR":
                    continue
                if not ctx.case(dict(what="kl", R=R, vi=vi, lay=lay)):
                    continue
                Rp = 1 if lay == "1R" else R
                Rq = 1 if lay == "R1" else R
                Sq = objs.spd_batch(D, Rq, vi + 1, seed, tag + ("q",), diag=diag)
                mq = objs.vec_batch(D, Rq, vi + 2, seed, tag + ("q",))
                p = objs.mk_pdf(kind, Sp[:Rp], mp_[:Rp])
                q = objs.mk_pdf(kind, Sq, mq)
                facts = dict(lay=lay, R=R)
                with ctx.guard("kl.call", facts):
                    got = np.asarray(p.kl_divergence(q))
                    ref = np.array([rm.kl(mp_[r % Rp if Rp > 1 else 0], Sp[r % Rp if Rp > 1 else 0], mq[r if Rq > 1 else 0], Sq[r if Rq > 1 else 0]) for r in range(max(Rp, Rq))])
                    ctx.close("kl.value", got, ref, facts=facts)
                    ctx.le("kl.nonneg", -got, 1e-12, facts=facts)
                    distinct = np.array([not (np.allclose(mp_[r if Rp > 1 else 0], mq[r if Rq > 1 else 0]) and np.allclose(Sp[r if Rp > 1 else 0], Sq[r if Rq > 1 else 0])) for r in range(max(Rp, Rq))])
                    if np.any(distinct & ~(got > 1e-10)):
                        ctx.fail("kl.positive", "zero_for_distinct", observed=got, facts=facts)
                    same = np.asarray(p.kl_divergence(p))
                    ctx.close("kl.self_zero", same, np.zeros(Rp), tol=1e-10, facts=facts)
                    # R=1 against R=n on identical components
                    p1 = objs.mk_pdf(kind, np.tile(Sp[:1], (R, 1, 1)), np.tile(mp_[:1], (R, 1)))
                    p0 = objs.mk_pdf(kind, Sp[:1], mp_[:1])
                    ctx.close("kl.self_zero_broadcast", np.asarray(p0.kl_divergence(p1)), np.zeros(R), tol=1e-10, facts=facts)
                    ctx.close("kl.self_zero_broadcast", np.asarray(p1.kl_divergence(p0)), np.zeros(R), tol=1e-10, facts=facts)


def run_cond(shard, ctx):
    tier, seed = shard["tier"], shard["seed"]
    kind, Rc, Rx, Dx, Dy = (shard[k] for k in ("kind", "Rc", "Rx", "Dx", "Dy"))
    R = Rc * Rx
    vis = _affine.value_indices(tier, shard) + (["M0"] if kind in ("full", "diag", "nncontrol") else [])
    for vi, ctor in [(v, c) for v in vis for c in _affine.ctors_for(kind)]:
        if ctor != "Sigma" and vi not in (0, 100):
            continue
        if not ctx.case(dict(vi=vi, ctor=ctor)):
            continue
        zero = vi == "M0"
        v = 1 if zero else vi
        tag = (kind, Rc, Rx, Dx, Dy)
        diag = kind in ("diag", "identity_diag")
        M = objs.mat_batch(Dy, Dx, Rc, v, seed, tag + ("M",))
        if zero:
            M = M * 0.0
        b = objs.vecn_batch(Dy, Rc, v, seed, tag + ("b",))
        Sy = objs.spd_batch(Dy, Rc, v, seed, tag + ("Sy",), diag=diag)
        pxk = "GaussianDiagPDF" if v == 1 else "GaussianPDF"  # also a diagonal-class prior (incl. the M=0 case)
        Sx = objs.spd_batch(Dx, Rx, v + 1, seed, tag + ("Sx",), diag=(pxk == "GaussianDiagPDF"))
        mx = objs.vec_batch(Dx, Rx, v, seed, tag + ("mx",))
        cond, kw, (M, b, Sy) = objs.mk_cond(kind, M, b, Sy, ctor=ctor)
        p_x = objs.mk_pdf(pxk, Sx, mx, mode=_affine.PX_MODE.get(ctor, "Sigma"))
        facts = dict(M_is_zero=zero, ctor=ctor)
        if vi == 100 and Dx >= 2 and ctor == "Sigma":
            # the prior is itself the joint produced by another linear conditional (its own effective moments are the reference)
            for lab, mkp, mx_e, Sx_e in objs.pdf_variants("GaussianPDF", Sx, mx, which=("joint_of_cond",)):
                with ctx.guard("prepare.prior_" + lab, facts) as g:
                    p_x = mkp()
                if g.ok:
                    mx, Sx = mx_e, Sx_e
                    facts["prior"] = lab
                else:
                    p_x = objs.mk_pdf(pxk, Sx, mx)
        Hc = np.zeros(R)
        I = np.zeros(R)
        for rc in range(Rc):
            for rx in range(Rx):
                r = rc * Rx + rx
                Hc[r] = rm.entropy(Sy[rc])
                Syy = Sy[rc] + M[rc] @ Sx[rx] @ M[rc].T
                I[r] = rm.entropy(Syy) - rm.entropy(Sy[rc])
        if vi == 0:
            ctx.sample(dict(shard=shard["id"], M=M, Sigma_y=Sy, Sigma_x=Sx, H_y_given_x=Hc, I=I))
        with ctx.guard("conditional_entropy.call", facts):
            got = np.asarray(cond.conditional_entropy(p_x, **kw))
            ctx.close("conditional_entropy.value", got, Hc, facts=facts)
            # = -E[ln p(y|x)] through the library's expected log-conditional where it exists (R_cond = 1)
            if Rc == 1 and kind != "nncontrol":
                # q over (y, x): the model's joint re-ordered
                mj, Sj = [], []
                for rx in range(Rx):
                    m_, S_ = rm.joint(mx[rx], Sx[rx], M[0], b[0], Sy[0])
                    perm = list(range(Dx, Dx + Dy)) + list(range(Dx))
                    mj.append(m_[perm])
                    Sj.append(S_[np.ix_(perm, perm)])
                q = objs.mk_pdf("GaussianPDF", np.array(Sj), np.array(mj))
                e = np.asarray(cond.integrate_log_conditional(q))
                ctx.close("conditional_entropy.minus_E_ln_cond", got, -e, facts=facts)
        if kind in ("identity", "identity_diag", "full", "diag", "nncontrol"):
            with ctx.guard("mutual_information.call", facts):
                mi = np.asarray(cond.mutual_information(p_x, **kw))
                ctx.close("mutual_information.value", mi, I, facts=facts)
                ctx.le("mutual_information.nonneg", -mi, 1e-10, facts=facts)
                if zero:
                    ctx.close("mutual_information.zero_iff_independent", mi, np.zeros(R), tol=1e-10, facts=facts)
                elif np.any(~(mi > 1e-9)):
                    ctx.fail("mutual_information.zero_iff_independent", "zero_for_dependent", observed=mi, facts=facts)
            with ctx.guard("mutual_information.swap", facts):
                post = cond.affine_conditional_transformation(p_x, **kw)
                p_y = cond.affine_marginal_transformation(p_x, **kw)
                sw = np.zeros(R)
                for r in range(R):
                    sw[r] = float(np.asarray(post.slice(jnp.array([r])).mutual_information(p_y.slice(jnp.array([r]))))[0])
                ctx.close("mutual_information.swap", sw, I, tol=1e-7, facts=facts)
