"""C15 -- specialised representations agree with the general one (differential)."""
import copy

import numpy as np
import jax
from jax import numpy as jnp

from gaussian_toolbox import conditional, factor

from .. import alphabet as al
from .. import objs
from . import c12

J = jnp.asarray

PROPERTY = "C15"
LEVEL = "exploration"
TECHNIQUE = "bounded-exhaustive differential enumeration: every supported operation x every specialised class x shapes / batch layouts x catalogue, executed on the specialised and on the general class built from the same parameters; results compared attribute-wise and by function values"
RULE = (
    "complete product: pair {DiagMeasure|Measure, DiagPDF|PDF, DiagConditional|Conditional, Identity(+Diag)|Conditional(M=I,b=0), OneRank/Linear/Constant factor|ConjugateFactor, NNControl(u)|Conditional(M(u),b(u))} "
    "x operation table of the pair x R x D (Dx,Dy) x batch layout x value index; verdict: same exposed attributes (where both sides expose them) and same function values / arrays. distinct = (pair, op, R, dims, value index)"
)
ASSUMPTIONS = [
    "purely differential (two library paths); ground truth for the general side comes from C01-C14",
    "real-valued parameters on the finite catalogue + VERIF_SEED-indexed generic reals only; D<=3, R<=3",
]
BOUNDS = {"quick": dict(D=[1, 2, 3], R=[1, 2, 3]), "thorough": dict(D=[1, 2, 3, 4], R=[1, 2, 3, 4])}
BUDGET = {"quick": 900, "thorough": 3600}


def shards(tier, seed):
    out = []
    for D in BOUNDS[tier]["D"]:
        for fam in ("measure", "pdf", "factor.OneRankFactor", "factor.LinearFactor", "factor.ConstantFactor"):
            out.append(dict(id="C15/%s/D%d" % (fam, D), fam=fam, D=D, cost=D * 2, facts=dict(fam=fam, D=D)))
        for fam in ("cond.diag", "cond.nncontrol"):
            for Dy in BOUNDS[tier]["D"][:3]:
                out.append(dict(id="C15/%s/Dx%d.Dy%d" % (fam, D, Dy), fam=fam, D=D, Dy=Dy, cost=D + Dy, facts=dict(fam=fam, Dx=D, Dy=Dy)))
        for fam in ("cond.identity", "cond.identity_diag"):
            out.append(dict(id="C15/%s/D%d" % (fam, D), fam=fam, D=D, Dy=D, cost=D * 2, facts=dict(fam=fam, Dx=D, Dy=D)))
    return out


def cmp(ctx, site, a, b, facts):
    if isinstance(a, tuple):
        ok = True
        for i, (x, y) in enumerate(zip(a, b)):
            ok &= cmp(ctx, "%s[%d]" % (site, i), x, y, facts)
        return ok
    return c12.same(ctx, site, a, b, facts)


def run_pair(ctx, name, spec_obj, gen_obj, ops, facts):
    """ops: list of (opname, fn(obj) -> result)."""
    for opname, fn in ops:
        if not ctx.case(dict(pair=name, op=opname, **{k: v for k, v in facts.items() if isinstance(v, (int, str))})):
            continue
        f2 = dict(facts, op=opname, pair=name)
        with ctx.guard("general." + opname, f2) as g:
            rg = fn(copy.copy(gen_obj))
        if not g.ok:
            continue
        try:
            with ctx.guard("specialised." + opname, f2, pass_through=(NotImplementedError,)) as g:
                rs = fn(copy.copy(spec_obj))
        except NotImplementedError:
            ctx.count("documented_refusals")  # a shape the specialised class does not accept
            continue
        if not g.ok:
            continue
        cmp(ctx, "differs." + opname, rs, rg, f2)


def measure_ops(D, R, vi, seed, is_pdf):
    x = al.points(3, D, salt=vi)
    ops = [("evaluate_ln", lambda o: o.evaluate_ln(J(x))), ("evaluate", lambda o: o.evaluate(J(x)))]
    if R > 0:
        ops.append(("evaluate_elementwise", lambda o: o.evaluate_ln(J(al.points(R, D, salt=2)), element_wise=True)))
    for q in ("integral", "log_integral", "integral_light", "log_integral_light"):
        ops.append((q, lambda o, q=q: getattr(o, q)()))
    dims = dict(K=3, L=2, M=1, D=D)
    for key, slots in c12.INTEGRATE.items():
        for mode in ("shared", "percomp"):
            if mode == "percomp" and (not slots or R == 1):
                continue
            kw = {}
            for nm, (dsym,) in slots.items():
                n = dims[dsym] if isinstance(dsym, str) else dsym
                Rn = R if mode == "percomp" else 1
                if key == "xb'xx'":
                    arr = np.array([al.int_vector(D, salt=r + 1) for r in range(Rn)]) * 0.5
                elif nm.isupper():
                    arr = np.array([al.int_matrix(n, D, salt=r + ord(nm)) for r in range(Rn)]) * 0.5
                else:
                    arr = np.array([al.int_vector(n, salt=r + ord(nm)) for r in range(Rn)]) * 0.5
                kw[nm + ("_mat" if nm.isupper() else "_vec")] = J(arr if mode == "percomp" else arr[0])
            ops.append(("integrate[%s].%s" % (key, mode), lambda o, key=key, kw=kw: o.integrate(key, **kw)))
    for fk in ("ConjugateFactor", "OneRankFactor", "LinearFactor", "ConstantFactor", "GaussianMeasure"):
        for uf in (False, True):
            for warm in (0, 1):
                for R2 in (1, 2):
                    def mul(o, fk=fk, uf=uf, warm=warm, R2=R2):
                        if warm:
                            o.integrate("x")
                        return o.multiply(objs.mk_factor(fk, D, R2, vi, seed, tag=("c15f",))[0], update_full=uf)
                    ops.append(("multiply(%s,R2=%d).uf%d.warm%d" % (fk, R2, uf, warm), mul))
                for R2 in sorted({1, R}):
                    def had(o, fk=fk, uf=uf, warm=warm, R2=R2):
                        if warm:
                            o.integrate("x")
                        return o.hadamard(objs.mk_factor(fk, D, R2, vi, seed, tag=("c15f",))[0], update_full=uf)
                    ops.append(("hadamard(%s,R2=%d).uf%d.warm%d" % (fk, R2, uf, warm), had))
    ops.append(("product", lambda o: o.product()))
    ops.append(("product.warm", lambda o: (o.integrate("x"), o.product())[1]))
    for idx in ([0], [R - 1, 0], [-1, -1]):
        ops.append(("slice%s" % idx, lambda o, idx=idx: o.slice(jnp.array(idx))))
        ops.append(("slice%s.warm" % idx, lambda o, idx=idx: (o.integrate("x"), o.slice(jnp.array(idx)))[1]))
    ops.append(("get_density", lambda o: o.get_density()))
    ops.append(("log_factor", lambda o: o.integrate("log u(x)", factor=objs.mk_factor("ConjugateFactor", D, 1, vi, seed, tag=("c15lf",))[0])))
    if not is_pdf:
        def norm(o):
            o.normalize()
            return o
        ops.append(("normalize", norm))
    else:
        ops.append(("entropy", lambda o: o.entropy()))
        ops.append(("kl(self,other)", lambda o: o.kl_divergence(objs.mk_pdf("GaussianPDF", objs.spd_batch(D, 1, vi + 2, seed, ("c15q",)), objs.vec_batch(D, 1, vi + 2, seed, ("c15q",))))))
        ops.append(("kl(other,self)", lambda o: objs.mk_pdf("GaussianPDF", objs.spd_batch(D, 1, vi + 2, seed, ("c15q",)), objs.vec_batch(D, 1, vi + 2, seed, ("c15q",))).kl_divergence(o)))
        ops.append(("sample", lambda o: o.sample(jax.random.PRNGKey(3), 2)))
        ops.append(("linear_sum", lambda o: o.get_density_of_linear_sum(J(al.int_matrix(D, D, salt=3)[None]), J(al.int_vector(D, salt=1)[None]))))
        if D >= 2:
            for dims_ in ([0], [D - 1, 0]):
                ops.append(("get_marginal%s" % dims_, lambda o, d=dims_: o.get_marginal(jnp.array(d))))
            ops.append(("condition_on", lambda o: o.condition_on(jnp.array([D - 1]))))
            ops.append(("condition_on_explicit", lambda o: o.condition_on_explicit(jnp.array([0]), jnp.array(list(range(D - 1, 0, -1))))))
        for ck in ("full", "identity"):
            for tr in ("affine_joint_transformation", "affine_marginal_transformation", "affine_conditional_transformation"):
                def tf(o, ck=ck, tr=tr):
                    c = objs.mk_cond(ck, objs.mat_batch(D, D, 1, vi, seed, ("c15c",)), objs.vecn_batch(D, 1, vi, seed, ("c15c",)), objs.spd_batch(D, 1, vi, seed, ("c15c",)))[0]
                    return getattr(c, tr)(o)
                ops.append(("as_prior.%s.%s" % (ck, tr), tf))
    return ops


def cond_ops(Dx, Dy, R, vi, seed, kw):
    x = al.points(2, Dx, salt=vi)
    ops = [("condition_on_x", lambda o: o.condition_on_x(J(x), **kw) if not kw else o.condition_on_x_u(J(x), kw["u"])), ("call", lambda o: o(J(x), **kw)), ("get_conditional_mu", lambda o: o.get_conditional_mu(J(x), **kw))]
    for Ny in sorted({1, 2, 3} if R == 1 else {R}):
        ops.append(("set_y.N%d" % Ny, lambda o, Ny=Ny: o.set_y(J(al.points(Ny, Dy, salt=3)), **kw)))
    for Rp in ((1, 2, 3) if R == 1 else (1,)):
        def px(Rp=Rp):
            return objs.mk_pdf("GaussianPDF", objs.spd_batch(Dx, Rp, vi + 1, seed, ("c15p",)), objs.vec_batch(Dx, Rp, vi + 1, seed, ("c15p",)))
        for tr in ("affine_joint_transformation", "affine_marginal_transformation", "affine_conditional_transformation", "conditional_entropy", "mutual_information"):
            ops.append(("%s.Rp%d" % (tr, Rp), lambda o, tr=tr, px=px: getattr(o, tr)(px(), **kw)))
        if R == 1:
            ops.append(("integrate_log_conditional_y.Rp%d" % Rp, lambda o, px=px, Rp=Rp: o.integrate_log_conditional_y(px(), y=J(al.points(Rp, Dy, salt=4)), **kw)))
            ops.append(("integrate_log_conditional_y.callable.Rp%d" % Rp, lambda o, px=px, Rp=Rp: o.integrate_log_conditional_y(px(), **kw)(J(al.points(Rp, Dy, salt=4)))))
    for Rq in ((1, 2) if R == 1 else (R,)):
        ops.append(("integrate_log_conditional.Rq%d" % Rq, lambda o, Rq=Rq: o.integrate_log_conditional(objs.mk_pdf("GaussianPDF", objs.spd_batch(Dx + Dy, Rq, vi + 1, seed, ("c15q",)), objs.vec_batch(Dx + Dy, Rq, vi + 1, seed, ("c15q",))), **kw)))
    if not kw:
        for idx in ([0], [R - 1, 0], [-1]):
            ops.append(("slice%s" % idx, lambda o, idx=idx: o.slice(jnp.array(idx))))
            ops.append(("slice%s.then_condition" % idx, lambda o, idx=idx: o.slice(jnp.array(idx)).condition_on_x(J(x))))
    return ops


def run_shard(shard, ctx):
    tier, seed = shard["tier"], shard["seed"]
    fam, D = shard["fam"], shard["D"]
    vis = [0, 100] if tier == "quick" else [0, 1, 100, 101, 102, 103, 104, 105]
    for R in BOUNDS[tier]["R"]:
        for vi in vis:
            facts = dict(R=R, vi=vi)
            if fam in ("measure", "pdf"):
                tag = ("c15", fam, D, R)
                if fam == "measure":
                    Lam = objs.spd_batch(D, R, vi, seed, tag, diag=True)
                    nu = objs.vec_batch(D, R, vi, seed, tag)
                    lnb = objs.lnb_batch(R, vi, seed, tag)
                    s, g = objs.mk_measure("GaussianDiagMeasure", Lam, nu, lnb), objs.mk_measure("GaussianMeasure", Lam, nu, lnb)
                else:
                    Sig = objs.spd_batch(D, R, vi, seed, tag, diag=True)
                    mu = objs.vec_batch(D, R, vi, seed, tag)
                    s, g = objs.mk_pdf("GaussianDiagPDF", Sig, mu), objs.mk_pdf("GaussianPDF", Sig, mu)
                run_pair(ctx, fam, s, g, measure_ops(D, R, vi, seed, fam == "pdf"), facts)
                if fam == "pdf":
                    # update(): mutate both, compare
                    for idx in ([0], [R - 1]):
                        def upd(o, idx=idx):
                            d = objs.mk_pdf(type(o).__name__, objs.spd_batch(D, 1, vi + 3, seed, ("c15u",), diag=True), objs.vec_batch(D, 1, vi + 3, seed, ("c15u",)))
                            o.update(jnp.array(idx), d)
                            return o
                        run_pair(ctx, fam, s, g, [("update%s" % idx, upd)], facts)
            elif fam.startswith("factor."):
                fk = fam.split(".")[1]
                s, (L, n, b) = objs.mk_factor(fk, D, R, vi, seed, tag=("c15sf",))
                g = factor.ConjugateFactor(Lambda=J(L), nu=J(n), ln_beta=J(b))
                x = al.points(3, D, salt=vi)
                ops = [("evaluate_ln", lambda o: o.evaluate_ln(J(x))), ("call", lambda o: o(J(x))), ("product", lambda o: o.product())]
                ops.append(("evaluate_elementwise", lambda o: o.evaluate_ln(J(al.points(R, D, salt=2)), element_wise=True)))
                for idx in ([0], [R - 1, 0], [-1, -1]):
                    ops.append(("slice%s" % idx, lambda o, idx=idx: o.slice(jnp.array(idx))))
                for mk in ("GaussianMeasure", "GaussianDiagMeasure", "GaussianPDF"):
                    for R1 in (1, 2, 3):
                        for uf in (False, True):
                            for warm in (0, 1):
                                def mk_u(mk=mk, R1=R1, warm=warm):
                                    u = c12.mk_meas(mk, D, R1, vi, seed, ("c15u",))
                                    if warm:
                                        u.integrate("x")
                                    return u
                                ops.append(("%s[R1=%d].multiply.uf%d.warm%d" % (mk, R1, uf, warm), lambda o, mk_u=mk_u, uf=uf: mk_u().multiply(o, update_full=uf)))
                                if R1 in (1, R):
                                    ops.append(("%s[R1=%d].hadamard.uf%d.warm%d" % (mk, R1, uf, warm), lambda o, mk_u=mk_u, uf=uf: mk_u().hadamard(o, update_full=uf)))
                        if R1 in (1, R) or R == 1:
                            ops.append(("%s[R1=%d].integrate_log_factor" % (mk, max(R1, R)), lambda o, mk=mk, R1=R1: c12.mk_meas(mk, D, max(R1, R), vi, seed, ("c15u",)).integrate("log u(x)", factor=o)))
                run_pair(ctx, fam, s, g, ops, facts)
            else:
                Dx, Dy = D, shard["Dy"]
                kind = fam.split(".")[1]
                if kind == "nncontrol" and R > 3:
                    continue
                tag = ("c15c", kind, Dx, Dy, R)
                M = objs.mat_batch(Dy, Dx, R, vi, seed, tag)
                b = objs.vecn_batch(Dy, R, vi, seed, tag)
                Sy = objs.spd_batch(Dy, R, vi, seed, tag, diag=kind in ("diag", "identity_diag"))
                if kind == "nncontrol":
                    Sy = np.tile(Sy[:1], (R, 1, 1))
                # the specialised object is built through a different constructor argument combination per value index
                ctor = "Sigma" if kind == "nncontrol" else {0: "Sigma", 100: "Lambda"}.get(vi, "all")
                s, kw, (M, b, Sy) = objs.mk_cond(kind, M, b, Sy, ctor=ctor)
                g = conditional.ConditionalGaussianPDF(M=J(M), b=J(b), Sigma=J(Sy))
                if kind == "nncontrol":
                    # the specialised side takes u, the general side is the plain conditional with M(u), b(u)
                    ops_s = cond_ops(Dx, Dy, R, vi, seed, kw)
                    ops_g = cond_ops(Dx, Dy, R, vi, seed, {})
                    names_g = dict(ops_g)
                    for opname, fn in ops_s:
                        gname = opname
                        if gname not in names_g:
                            continue
                        if not ctx.case(dict(pair=fam, op=opname, R=R, vi=vi)):
                            continue
                        f2 = dict(facts, op=opname, pair=fam)
                        with ctx.guard("general." + opname, f2) as gd:
                            rg = names_g[gname](copy.copy(g))
                        if not gd.ok:
                            continue
                        try:
                            with ctx.guard("specialised." + opname, f2, pass_through=(NotImplementedError,)) as gd:
                                rs = fn(copy.copy(s))
                        except NotImplementedError:
                            ctx.count("documented_refusals")
                            continue
                        if not gd.ok:
                            continue
                        cmp(ctx, "differs." + opname, rs, rg, f2)
                else:
                    ops = cond_ops(Dx, Dy, R, vi, seed, {})
                    def us(o):
                        o.update_Sigma(J(objs.spd_batch(Dy, R, vi + 2, seed, ("c15us",), diag=True)))
                        return o.condition_on_x(J(al.points(2, Dx, salt=1)))
                    ops.append(("update_Sigma.then_condition", us))
                    run_pair(ctx, fam, s, g, ops, facts)
            if vi == 0 and R == 2:
                ctx.sample(dict(shard=shard["id"], R=R, example_op="multiply / affine_joint_transformation ...", compared="exposed attributes + function values"))
