"""Finite value catalogues (DESIGN 1.2).  Pure NumPy, deterministic.

Every driver enumerates the catalogue entries it asks for COMPLETELY; the
seed-indexed "generic real" entries are a deterministic function of
(VERIF_SEED, shape tuple, slot) and are part of the finite alphabet of a run.
"""
import hashlib
import itertools

import numpy as np


def _spd_int(D):
    """All symmetric integer matrices with diagonal in {2,3}, off-diagonal in
    {-1,0,1}, positive definite with cond <= 1e3."""
    out = []
    nod = D * (D - 1) // 2
    for diag in itertools.product([2, 3], repeat=D):
        for off in itertools.product([0, 1, -1], repeat=nod):
            A = np.diag(np.array(diag, float))
            k = 0
            for i in range(D):
                for j in range(i + 1, D):
                    A[i, j] = A[j, i] = off[k]
                    k += 1
            w = np.linalg.eigvalsh(A)
            if w[0] > 1e-9 and w[-1] / w[0] <= 1e3:
                out.append(A)
    return out


_SPD_CACHE = {}


def spd_catalogue(D, thin=True):
    """Ordered simplest-first.  D=1: 4 entries; D=2: 12; D=3: thin 12 / full ~200;
    D>=4: fixed 6 built from a deterministic recipe."""
    key = (D, thin)
    if key in _SPD_CACHE:
        return _SPD_CACHE[key]
    if D == 1:
        cat = [np.array([[v]]) for v in (1.0, 0.5, 2.0, 4.0)]
    elif D <= 3:
        full = _spd_int(D)
        # simplest first: number of non-zero off-diagonals, then lexicographic
        full.sort(key=lambda A: (int(np.count_nonzero(A - np.diag(np.diag(A)))), tuple(A.ravel())))
        if D == 3 and thin:
            conds = [np.linalg.cond(A) for A in full]
            picks = [0]  # diagonal
            dense_pos = [i for i, A in enumerate(full) if np.all(A - np.diag(np.diag(A)) >= 0) and np.count_nonzero(A - np.diag(np.diag(A))) == 6]
            dense_mix = [i for i, A in enumerate(full) if np.count_nonzero(A - np.diag(np.diag(A))) == 6 and np.any(A < 0) and np.any((A - np.diag(np.diag(A))) > 0)]
            picks += dense_pos[:2] + dense_mix[:3]
            picks.append(int(np.argmax(conds)))
            step = max(1, len(full) // 7)
            picks += list(range(3, len(full), step))
            seen, sel = set(), []
            for i in picks:
                if i not in seen:
                    seen.add(i)
                    sel.append(full[i])
            cat = sel[:12]
        else:
            cat = full
    else:
        cat = []
        for s in range(6):
            B = np.fromfunction(lambda i, j: ((i * 3 + j * 5 + s * 7) % 5 - 2.0), (D, D))
            A = B @ B.T / D + (2 + s % 2) * np.eye(D)
            cat.append(0.5 * (A + A.T))
    _SPD_CACHE[key] = cat
    return cat


def diag_catalogue(D):
    vals = [(2.0,), (0.5,), (1.0,), (3.0,)] if D == 1 else None
    if D == 1:
        return [np.diag(np.array(v)) for v in vals]
    base = [0.5, 2.0, 1.0, 3.0, 4.0]
    out = []
    for s in range(6):
        out.append(np.diag(np.array([base[(s + 2 * i) % len(base)] for i in range(D)])))
    return out


def vec_catalogue(D):
    """{-1,0,2}^D ordered with the all-zero vector LAST-but-present and generic
    sign-mixed vectors first (capped to 9 for D>=3)."""
    allv = [np.array(v, float) for v in itertools.product([-1.0, 0.0, 2.0], repeat=D)]
    allv.sort(key=lambda v: (-int(np.count_nonzero(v)), tuple(v)))
    if D >= 3:
        keep = allv[:7] + [np.zeros(D)] + [allv[len(allv) // 2]]
        return keep
    return allv


LNB_CAT = [0.7, -1.5, 0.0]


def int_matrix(rows, cols, salt=0):
    """Deterministic small-integer matrix with distinct, sign-mixed entries and
    full rank min(rows, cols)."""
    vals = [1, -2, 3, -1, 2, -3, 4, -4, 5]
    for shift in range(50):
        M = np.array([[vals[(i * 5 + j * 3 + salt * 2 + shift + (i * j)) % len(vals)] for j in range(cols)] for i in range(rows)], float)
        if np.linalg.matrix_rank(M) == min(rows, cols):
            return M
    raise AssertionError("no full-rank integer matrix found")


def int_vector(n, salt=0):
    vals = [2, -1, 1, -3, 3, -2, 4]
    return np.array([vals[(i * 3 + salt) % len(vals)] for i in range(n)], float)


def points(N, D, salt=0):
    """N evaluation points from {-1,0,2}^D u generic, pairwise different."""
    base = [np.array(v, float) for v in itertools.product([-1.0, 2.0, 0.0], repeat=D)]
    out = []
    for n in range(N):
        v = base[(n * 2 + salt + 1) % len(base)].copy()
        v = v + 0.25 * (n + 1) * np.array([(-1.0) ** (k + n) / (k + 1) for k in range(D)])
        out.append(v)
    return np.array(out)


def pick(cat, i, r=0, stride=None):
    """Component r of a batch takes catalogue entry (i + r*stride) mod |cat|."""
    if stride is None:
        stride = 1 + len(cat) // 3
    return cat[(i + r * stride) % len(cat)]


def rng_for(seed, *tag):
    h = hashlib.sha256(repr((int(seed),) + tuple(tag)).encode()).digest()
    return np.random.default_rng(int.from_bytes(h[:8], "little"))


def generic_spd(rng, D, cond_max=1e3, scale=1.0):
    while True:
        B = rng.uniform(-1, 1, size=(D, D))
        A = B @ B.T + (0.3 + rng.uniform(0, 1)) * np.eye(D)
        A = scale * 0.5 * (A + A.T)
        w = np.linalg.eigvalsh(A)
        if w[-1] / w[0] <= cond_max and w[-1] <= 6 and w[0] >= 0.05:
            return A


def generic_vec(rng, D, mag=2.0):
    return rng.uniform(-mag, mag, size=D)


def generic_mat(rng, rows, cols, mag=1.5):
    while True:
        M = rng.uniform(-mag, mag, size=(rows, cols))
        s = np.linalg.svd(M, compute_uv=False)
        if s[-1] > 0.15:
            return M


def all_index_lists(D, proper=False, max_len=None):
    """All permutations of all non-empty subsets of range(D)."""
    out = []
    top = D - 1 if proper else D
    if max_len is not None:
        top = min(top, max_len)
    for k in range(1, top + 1):
        for sub in itertools.combinations(range(D), k):
            for perm in itertools.permutations(sub):
                out.append(list(perm))
    return out


def slice_index_arrays(R, max_len=2):
    """All index arrays of length 1..max_len over {-R..R-1}, plus all
    permutations of range(R) (R<=4) and the full reversed range."""
    dom = list(range(-R, R))
    out = []
    for L in range(1, max_len + 1):
        out += [list(t) for t in itertools.product(dom, repeat=L)]
    if R <= 4:
        out += [list(p) for p in itertools.permutations(range(R)) if list(p) not in out]
    return out
