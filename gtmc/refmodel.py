"""NumPy reference model ("boring on purpose").

float64 NumPy only; no JAX, no code shared with gaussian_toolbox.  A factor /
measure is (Lam, nu, lnb) with ln u(x) = -x'Lam x/2 + nu'x + lnb; a density is
(mu, Sig).  Batches are handled by the callers (one component at a time), so
every function here is about ONE Gaussian unless it says otherwise.
"""
import itertools
import math
from fractions import Fraction

import numpy as np

LN2PI = math.log(2.0 * math.pi)


# --------------------------------------------------------------------------
# natural-parameter side
# --------------------------------------------------------------------------
def quad_ln(x, Lam, nu, lnb):
    """ln u(x) for points x [N,D] -> [N]."""
    x = np.atleast_2d(np.asarray(x, float))
    return -0.5 * np.einsum("nd,de,ne->n", x, Lam, x) + x @ nu + lnb


def ln_integral(Lam, nu, lnb):
    """ln of int exp(-x'Lam x/2 + nu'x + lnb) dx (Lam positive definite)."""
    D = Lam.shape[0]
    sign, ld = np.linalg.slogdet(Lam)
    if sign <= 0:
        return float("nan")
    return 0.5 * nu @ np.linalg.solve(Lam, nu) + 0.5 * D * LN2PI - 0.5 * ld + lnb


def nat_to_moment(Lam, nu):
    Sig = np.linalg.inv(Lam)
    Sig = 0.5 * (Sig + Sig.T)
    return Sig @ nu, Sig


def moment_to_nat(mu, Sig):
    Lam = np.linalg.inv(Sig)
    Lam = 0.5 * (Lam + Lam.T)
    nu = Lam @ mu
    lnb = -(0.5 * mu @ Lam @ mu + 0.5 * len(mu) * LN2PI + 0.5 * np.linalg.slogdet(Sig)[1])
    return Lam, nu, lnb


def lnZ(Lam, nu):
    """Gaussian log-normaliser 0.5*(nu'Sig nu + D ln2pi + ln|Sig|)."""
    D = Lam.shape[0]
    return 0.5 * (nu @ np.linalg.solve(Lam, nu) + D * LN2PI - np.linalg.slogdet(Lam)[1])


# --------------------------------------------------------------------------
# moment side
# --------------------------------------------------------------------------
def gauss_logpdf(x, mu, Sig):
    """ln N(x; mu, Sig) for points x [N,D] -> [N]."""
    x = np.atleast_2d(np.asarray(x, float))
    D = len(mu)
    d = x - mu
    sol = np.linalg.solve(Sig, d.T).T
    return -0.5 * np.einsum("nd,nd->n", d, sol) - 0.5 * D * LN2PI - 0.5 * np.linalg.slogdet(Sig)[1]


def marginal(mu, Sig, dims):
    dims = list(dims)
    return mu[dims], Sig[np.ix_(dims, dims)]


def conditional(mu, Sig, a, b):
    """p(x_a | x_b) = N(M x_b + c, S) by the covariance Schur complement."""
    a, b = list(a), list(b)
    Saa, Sab, Sbb = Sig[np.ix_(a, a)], Sig[np.ix_(a, b)], Sig[np.ix_(b, b)]
    M = np.linalg.solve(Sbb, Sab.T).T
    c = mu[a] - M @ mu[b]
    S = Saa - M @ Sab.T
    return M, c, 0.5 * (S + S.T)


def pushforward(mu, Sig, W, b=None):
    m = W @ mu + (0 if b is None else b)
    return m, W @ Sig @ W.T


def joint(mu, Sig, M, b, Sy):
    """Joint of x~N(mu,Sig), y|x~N(Mx+b,Sy); order (x, y)."""
    my = M @ mu + b
    C = M @ Sig
    S = np.block([[Sig, C.T], [C, Sy + C @ M.T]])
    return np.concatenate([mu, my]), S


def posterior(mu, Sig, M, b, Sy):
    """p(x|y) = N(Mp y + bp, Sp) via the covariance route (joint, then Schur)."""
    Dx, Dy = len(mu), len(b)
    mj, Sj = joint(mu, Sig, M, b, Sy)
    return conditional(mj, Sj, range(Dx), range(Dx, Dx + Dy))


def entropy(Sig):
    w = np.linalg.eigvalsh(Sig)
    return 0.5 * (len(w) * (1.0 + LN2PI) + np.sum(np.log(w)))


def kl(mu0, S0, mu1, S1):
    """KL(N0 || N1)."""
    D = len(mu0)
    d = mu1 - mu0
    return 0.5 * (
        np.trace(np.linalg.solve(S1, S0))
        + d @ np.linalg.solve(S1, d)
        - D
        + np.sum(np.log(np.linalg.eigvalsh(S1)))
        - np.sum(np.log(np.linalg.eigvalsh(S0)))
    )


# --------------------------------------------------------------------------
# black-box identification of a quadratic ln f(x)
# --------------------------------------------------------------------------
def lattice(D):
    """Probe points {0, +-e_i, e_i+e_j (i<j)} plus 3 verification points."""
    pts = [np.zeros(D)]
    for i in range(D):
        e = np.zeros(D)
        e[i] = 1.0
        pts += [e, -e]
    for i in range(D):
        for j in range(i + 1, D):
            e = np.zeros(D)
            e[i] = e[j] = 1.0
            pts.append(e)
    extra = [np.full(D, 0.5), np.arange(1, D + 1) * -0.7, np.array([(-1.0) ** k * (k + 1.3) for k in range(D)])]
    return np.array(pts + extra), len(extra)


def identify_quadratic(vals, D):
    """vals = ln f at lattice(D) points (1-D array).  Returns (Lam, nu, c, resid):
    ln f(x) = -x'Lam x/2 + nu'x + c exactly on the lattice; resid = max error on
    the verification points (quadraticity certificate)."""
    pts, nextra = lattice(D)
    vals = np.asarray(vals, float)
    c = vals[0]
    nu = np.zeros(D)
    Lam = np.zeros((D, D))
    for i in range(D):
        fp, fm = vals[1 + 2 * i], vals[2 + 2 * i]
        nu[i] = 0.5 * (fp - fm)
        Lam[i, i] = -(fp + fm - 2 * c)
    k = 1 + 2 * D
    for i in range(D):
        for j in range(i + 1, D):
            fij = vals[k]
            k += 1
            # f(ei+ej) = c + nu_i + nu_j - (Lii + Ljj)/2 - Lij
            Lam[i, j] = Lam[j, i] = -(fij - c - nu[i] - nu[j] + 0.5 * (Lam[i, i] + Lam[j, j]))
    ex = pts[-nextra:]
    pred = quad_ln(ex, Lam, nu, c)
    resid = float(np.max(np.abs(pred - vals[-nextra:])))
    return Lam, nu, c, resid


def identification_noise(vals, Lam, nu):
    """Rounding noise of ln_integral(identify_quadratic(vals)): the probed values carry ~eps*max|vals| each, and the
    completion of the square amplifies an error dL in Lam to mu' dL mu with mu = Lam^-1 nu."""
    m = np.linalg.solve(Lam, nu)
    return 4e-16 * float(np.max(np.abs(vals))) * (1.0 + float(np.sum(np.abs(m)))) ** 2


def ln_integral_recentred(f_row, D, Lam, nu):
    """Second stage of the black-box mass oracle: re-probe the function on the lattice moved to the estimated mode
    m = Lam^-1 nu and scaled by the conditional standard deviations, where the probed values are O(ln of the mass)
    and completing the square is benign.  f_row(points[P,D]) -> ln f at the points (1-D).  Returns (ln integral, resid)."""
    m = np.linalg.solve(Lam, nu)
    s = 1.0 / np.sqrt(np.diag(Lam))
    pts, _ = lattice(D)
    vals = np.asarray(f_row(m[None, :] + pts * s[None, :]), float)
    L2, n2, c2, resid = identify_quadratic(vals, D)
    return ln_integral(L2, n2, c2) + float(np.sum(np.log(s))), resid


# --------------------------------------------------------------------------
# Gaussian moments (Isserlis / Wick)
# --------------------------------------------------------------------------
def _pairings(idx):
    if not idx:
        yield []
        return
    a = idx[0]
    for k in range(1, len(idx)):
        b = idx[k]
        rest = idx[1:k] + idx[k + 1:]
        for p in _pairings(rest):
            yield [(a, b)] + p


def central_moment_tensor(Sig, order, exact=False):
    """E[(x-mu)^{(x) order}] as a dense tensor of shape (D,)*order."""
    D = len(Sig)
    dtype = object if exact else float
    T = np.zeros((D,) * order, dtype=dtype)
    if exact:
        T[...] = 0
    if order % 2 == 1:
        return T
    if order == 0:
        T = np.array(1, dtype=dtype)
        return T
    for p in _pairings(list(range(order))):
        # term = prod Sig[i_a, i_b]
        letters = "abcdefgh"[:order]
        term = None
        # build through broadcasting
        t = np.ones((1,) * order, dtype=dtype) if not exact else np.array(1, dtype=object).reshape((1,) * order)
        for (a, b) in p:
            shape = [1] * order
            shape[a] = D
            shape[b] = D
            S = np.asarray(Sig, dtype=dtype)
            Sv = S.reshape(shape) if a < b else S.T.reshape(shape)
            t = t * Sv
        T = T + t
    return T


def raw_moment_tensor(mu, Sig, order, exact=False):
    """E[x^{(x) order}] (non-central) as dense tensor (D,)*order."""
    D = len(mu)
    dtype = object if exact else float
    mu = np.asarray(mu, dtype=dtype)
    total = np.zeros((D,) * order, dtype=dtype) if order > 0 else np.array(0, dtype=dtype)
    if exact and order > 0:
        total[...] = 0
    # choose subset of positions that take (x-mu); the rest take mu
    for k in range(0, order + 1):
        if k % 2 == 1:
            continue
        Ck = central_moment_tensor(Sig, k, exact=exact)
        for pos in itertools.combinations(range(order), k):
            t = np.ones((1,) * order, dtype=dtype) if order > 0 else np.array(1, dtype=dtype)
            if k > 0:
                shape = [1] * order
                for a in pos:
                    shape[a] = D
                t = t * np.asarray(Ck, dtype=dtype).reshape(shape)
            for a in range(order):
                if a not in pos:
                    shape = [1] * order
                    shape[a] = D
                    t = t * mu.reshape(shape)
            total = total + t
    return total


def raw_moments(mu, Sig, maxorder=4, exact=False):
    return [raw_moment_tensor(mu, Sig, k, exact=exact) for k in range(maxorder + 1)]


def expect_poly(moments, forms, spec, exact=False):
    """E[ einsum over affine forms ] for x~N(mu,Sig); moments = raw_moments(mu,Sig).

    forms: list of (A [K,D], a [K]) affine forms f_k(x) = A x + a  (A may be 1-D
           [D] with scalar a for a scalar-valued form).
    spec : einsum spec on the form indices, e.g. for (Ax+a)(Bx+b)'(Cx+c): 'i,j,j->i';
           a scalar-valued form has the empty index string.
    The polynomial is expanded literally: each form contributes either its linear
    part (consuming one x) or its constant part.
    """
    dtype = object if exact else float
    n = len(forms)
    if n == 0:
        return np.array(1, dtype=dtype)
    ins, out = spec.split("->")
    ins = ins.split(",")
    assert len(ins) == n
    result = None
    for mask in itertools.product([0, 1], repeat=n):
        order = sum(mask)
        Mx = moments[order]
        operands = []
        subs = []
        xl = iter("pqrstuvw")
        xsub = ""
        for (A, a), m, s in zip(forms, mask, ins):
            if m:
                l = next(xl)
                operands.append(np.asarray(A, dtype=dtype))
                subs.append(s + l)
                xsub += l
            else:
                operands.append(np.asarray(a, dtype=dtype))
                subs.append(s)
        operands.append(np.asarray(Mx, dtype=dtype))
        subs.append(xsub)
        expr = ",".join(subs) + "->" + out
        if exact:
            val = _einsum_obj(expr, operands)
        else:
            val = np.einsum(expr, *operands)
        result = val if result is None else result + val
    return result


def _einsum_obj(expr, operands):
    """Tiny exact einsum for object (Python int / Fraction) arrays."""
    ins, out = expr.split("->")
    ins = ins.split(",")
    sizes = {}
    for s, op in zip(ins, operands):
        op = np.asarray(op, dtype=object)
        for l, n in zip(s, op.shape):
            sizes[l] = n
    letters = sorted(sizes)
    res = np.zeros([sizes[l] for l in out], dtype=object)
    res[...] = 0
    for idx in itertools.product(*[range(sizes[l]) for l in letters]):
        env = dict(zip(letters, idx))
        term = 1
        for s, op in zip(ins, operands):
            op = np.asarray(op, dtype=object)
            v = op[tuple(env[l] for l in s)] if s else op[()]
            term = term * v
            if term == 0:
                break
        if term != 0:
            res[tuple(env[l] for l in out)] += term
    return res


# --------------------------------------------------------------------------
# quadrature
# --------------------------------------------------------------------------
def gauss_hermite(mu, Sig, n):
    """Nodes [n^D, D] and weights [n^D] for E_{N(mu,Sig)}[f]."""
    D = len(mu)
    z, w = np.polynomial.hermite_e.hermegauss(n)
    w = w / np.sqrt(2 * np.pi)
    L = np.linalg.cholesky(Sig)
    grids = np.meshgrid(*([z] * D), indexing="ij")
    Z = np.stack([g.ravel() for g in grids], axis=1)
    W = np.ones(len(Z))
    for d, g in enumerate(np.meshgrid(*([w] * D), indexing="ij")):
        W = W * g.ravel()
    return mu + Z @ L.T, W


def gauss_legendre_piecewise(breaks, n=64):
    """Nodes and weights of composite Gauss-Legendre on consecutive finite breaks."""
    t, w = np.polynomial.legendre.leggauss(n)
    xs, ws = [], []
    for a, b in zip(breaks[:-1], breaks[1:]):
        if not b > a:
            continue
        xs.append(0.5 * (b - a) * t + 0.5 * (a + b))
        ws.append(0.5 * (b - a) * w)
    if not xs:
        return np.zeros(0), np.zeros(0)
    return np.concatenate(xs), np.concatenate(ws)


def std_norm_cdf(z):
    return 0.5 * math.erfc(-z / math.sqrt(2.0))


def std_norm_pdf(z):
    return math.exp(-0.5 * z * z) / math.sqrt(2 * math.pi)


def normal_expect_nodes(mu, Sig, n, h=0.25, zmax=8.5):
    """Nodes [P,D] / weights [P] for E_{N(mu,Sig)}[f] by tensor composite
    Gauss-Legendre in the whitened variable z (panels of width h on [-zmax,zmax],
    n nodes per panel, standard normal density folded into the weights).  Unlike
    Gauss-Hermite this resolves features much narrower than the density."""
    D = len(mu)
    z1, w1 = gauss_legendre_piecewise(list(np.arange(-zmax, zmax + 1e-9, h)), n)
    w1 = w1 * np.exp(-0.5 * z1 * z1) / math.sqrt(2 * math.pi)
    keep = w1 > 1e-30
    z1, w1 = z1[keep], w1[keep]
    L = np.linalg.cholesky(np.atleast_2d(Sig))
    grids = np.meshgrid(*([z1] * D), indexing="ij")
    Z = np.stack([g.ravel() for g in grids], axis=1)
    W = np.ones(len(Z))
    for g in np.meshgrid(*([w1] * D), indexing="ij"):
        W = W * g.ravel()
    return np.asarray(mu) + Z @ L.T, W
