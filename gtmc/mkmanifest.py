"""Regenerate /verif/MANIFEST.json from the driver modules (python -m gtmc.mkmanifest)."""
import importlib
import json
import os
import sys

VERIF = os.path.dirname(os.path.dirname(os.path.abspath(__file__)))

NOT_APPLICABLE = {}


def main():
    sys.path.insert(0, VERIF)
    from gtmc import engine

    engine.worker_init(os.environ.get("GTMC_REPO", "/repo"), VERIF)
    props = [json.loads(l)["id"] for l in open(os.path.join(VERIF, "properties.jsonl"))]
    checks, na = [], []
    for pid in props:
        try:
            drv = importlib.import_module("gtmc.props.%s" % pid.lower())
        except ModuleNotFoundError:
            na.append(dict(property_id=pid, reason=NOT_APPLICABLE.get(pid, "driver not built yet in this session (planned in DESIGN.md section 4); not a limit of the technique")))
            continue
        checks.append(
            dict(
                property_id=pid,
                quick_cmd="./check %s --tier quick" % pid,
                thorough_cmd="./check %s --tier thorough" % pid,
                evidence_file="/verif/evidence/%s.json" % pid,
                replay_cmd_template="./check %s --replay {path}" % pid,
                engine="gtmc-bfs" if drv.LEVEL == "model_checking" else "gtmc-enumerate",
                level_claimed=dict(category=drv.LEVEL, text=getattr(drv, "LEVEL_TEXT", drv.RULE), design_ref=getattr(drv, "DESIGN_REF", "DESIGN.md section 4 (%s)" % pid)),
                level_note="; ".join(drv.ASSUMPTIONS),
                technique=getattr(drv, "TECHNIQUE", "bounded-exhaustive enumeration of configurations executed on the real code against a NumPy reference model"),
            )
        )
    man = dict(
        version=1,
        setup_cmd="cd /verif && /venv/bin/python -c 'import jax, numpy, scipy' && python3-vt -c 'import jsonschema' && chmod +x check",
        hooks=dict(
            guard="GAUSSIAN_TOOLBOX_VERIF",
            enable="no instrumentation of the repository is needed: every property is observable through the public API; checks import /repo's working tree directly (PYTHONPATH=/repo) and export GAUSSIAN_TOOLBOX_VERIF=1 (unused by the library)",
            baseline_off_cmd="cd /repo && /venv/bin/python -m pytest -ra -q -p no:cacheprovider --timeout=900 --continue-on-collection-errors",
            source_commits=[],
            add_only=True,
        ),
        engines=[
            dict(name="gtmc-enumerate", path="/verif/gtmc/engine.py", serves_properties=[c["property_id"] for c in checks if c["engine"] == "gtmc-enumerate"], kind_free_text="hand-written bounded-exhaustive enumerator: complete product of finite alphabets (shapes, kinds, layouts, index lists, cache states, value catalogue), each case executed on the real implementation in spawned workers and compared with an independent NumPy reference model"),
            dict(name="gtmc-bfs", path="/verif/gtmc/bfs.py", serves_properties=[c["property_id"] for c in checks if c["engine"] == "gtmc-bfs"], kind_free_text="hand-written explicit-state breadth-first search over the real transition functions (library methods); canonical state keys, replay of every history on fresh objects, invariant + reference-model agreement in every state, confluence check on every merge"),
        ],
        checks=checks,
        not_applicable=na,
        notes="All checks: cwd=/verif, exit 0/1 contract, evidence rewritten on every run, VERIF_SEED selects the seed-indexed part of the finite value catalogue. Known findings: /verif/known_findings.json.",
    )
    with open(os.path.join(VERIF, "MANIFEST.json"), "w") as f:
        json.dump(man, f, indent=1)
        f.write("\n")
    print("checks:", [c["property_id"] for c in checks])
    print("not_applicable:", [c["property_id"] for c in na])


if __name__ == "__main__":
    main()
